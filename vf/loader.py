"""Import the library under test from /repo's working tree with time / queue / threading
replaced by the virtual run time (DESIGN.md 2.1).  No source hook is needed."""
import os
import sys
import logging

REPO = os.environ.get('J1939_VERIF_REPO', '/repo')

# modules the library imports that must stay real: load them before the substitution
import can            # noqa: E402,F401
import numpy          # noqa: E402,F401
import enum           # noqa: E402,F401
import secrets        # noqa: E402,F401

from . import rt      # noqa: E402

_j1939 = None


def load():
    """returns the j1939 package imported from REPO, bound to the virtual run time"""
    global _j1939
    if _j1939 is not None:
        return _j1939
    os.environ.setdefault('J1939_VERIF', '1')
    logging.disable(logging.CRITICAL)
    for k in list(sys.modules):
        if k == 'j1939' or k.startswith('j1939.'):
            del sys.modules[k]
    if REPO not in sys.path:
        sys.path.insert(0, REPO)
    saved = {k: sys.modules.get(k) for k in ('time', 'queue', 'threading')}
    sys.modules['time'] = rt.vtime
    sys.modules['queue'] = rt.vqueue
    sys.modules['threading'] = rt.vthreading
    try:
        import j1939
    finally:
        for k, v in saved.items():
            if v is None:
                sys.modules.pop(k, None)
            else:
                sys.modules[k] = v
    f = os.path.realpath(j1939.__file__)
    if not f.startswith(os.path.realpath(REPO) + os.sep):
        raise rt.HarnessError("j1939 imported from %s, not from %s" % (f, REPO))
    # the library print()s diagnostics for unsupported multi-PG formats: keep stdout for verdicts
    for m in list(sys.modules.values()):
        if getattr(m, '__name__', '').startswith('j1939.'):
            m.__dict__['print'] = lambda *a, **k: None
    _j1939 = j1939
    return j1939
