"""C09 - originator obeys flow control and pacing; responder never over-grants.
A monitor automaton over the time-stamped bus log.  DESIGN.md section 4 / C09."""
from .. import rt
from ..explore import explore, trim
from ..runner import Acc, run_check
from ..scen import Net, npackets
from ..monitor import Monitor
from . import c03
from .c01 import msg

PROP = 'C09'
WAKES = [50e-6, 1e-3, 5e-3]


def lat_grid(dll, base):
    g = [1e-3, 0.0, 0.2e-3, 5e-3] if dll == 'j1939-21' else [1e-3, 0.2e-3, 5e-3]
    return [base] + [x for x in g if x != base]


def default_bam(dll):
    return 0.05 if dll == 'j1939-21' else 0.01


def run_ss(sc, prefix=(), seed=0, keep=False):
    """stack <-> stack"""
    net = Net(sc, prefix)
    try:
        dll = net.dll
        win_of, bam_iv, cmdt_iv = {}, {}, {}
        for sd in sc['stacks']:
            for a in sd['cas']:
                win_of[a] = sd.get('win', 1)
            kw = sd.get('kw', {})
            bi = kw.get('minimum_tp_bam_dt_interval')
            bam_iv[sd['name']] = default_bam(dll) if bi is None else bi
            cmdt_iv[sd['name']] = kw.get('minimum_tp_rts_cts_dt_interval')
        slack = max(sc.get('wake_grid') or [sc.get('eps_wake', 50e-6)])
        mon = Monitor(dll, win_of=win_of, bam_interval=bam_iv, cmdt_interval=cmdt_iv, wake_slack=slack)
        net.bus.taps.append(mon.feed)
        n = 1
        for m in sc['msgs']:
            net.submit(m, seed)
            k = npackets(dll, m['size'])
            iv = max(bam_iv.values()) if m['kind'] != 'p2p' else (max([x or 0 for x in cmdt_iv.values()]) + 0.006)
            n = max(n, k * (iv + 0.006))
        net.w.run_for(1.0 + n + (3.2 if dll == 'j1939-22' else 1.4))
        probs = ["flow control: " + t for (_who, t) in mon.problems]
        probs += net.judge_deliveries()
        probs += net.job_problems()
        return net.chooser.points, probs, net.outcome(), net.trace() if keep else None
    finally:
        net.close()


def run_sp(sc, prefix=(), seed=0, keep=False):
    """stack <-> conforming reference peer; C03's driver with the monitor's flow-control verdicts"""
    points, probs, outcome, trace = c03.run_one(sc, prefix, seed, keep)
    return points, probs, outcome, trace


def run_one(sc, prefix=(), seed=0, keep=False):
    return run_ss(sc, prefix, seed, keep) if 'stacks' in sc else run_sp(sc, prefix, seed, keep)


def csig(probs):
    p = probs[0]
    if 'missing' in p and 'unexpected' in p:
        return 'delivery differs from the submitted messages'
    return c03.csig(probs)


def worker(item):
    sc, bound, seed = item
    acc = Acc()

    def run(prefix):
        points, probs, outcome, _ = run_one(sc, prefix, seed)
        return points, (probs, outcome)

    for choices, ndev, (probs, outcome) in explore(run, bound):
        acc.case((repr(sorted(sc.items())), trim(choices)), outcome=outcome)
        if probs:
            acc.violation(csig(probs), sc, trim(choices), probs[:4])
    acc.sample({'scenario': sc, 'deviation_bound': bound, 'executions': acc.evals})
    return acc


def scenarios(tier):
    quick = tier == 'quick'
    items = []
    for dll in ('j1939-21', 'j1939-22'):
        seg = 7 if dll == 'j1939-21' else 60
        wins = [1, 2, 3, 8, 255]
        pk = [2, 3, 5, 9, 17, 40] if quick else [2, 3, 4, 5, 6, 7, 8, 9, 10, 16, 17, 25, 33, 40, 255]
        # (1) stack <-> stack, connection mode: windows on both sides, optional minimum DT interval
        for npk in pk:
            size = seg * npk - 2
            for wa in wins:
                for wb in wins:
                    if quick and npk > 9 and (wa, wb) not in ((1, 1), (2, 8), (8, 2), (255, 3), (3, 255), (255, 255)):
                        continue
                    for civ in (None, 0.001, 0.01, 0.05):
                        if civ is not None and (npk > 9 or (quick and (wa, wb) not in ((2, 8), (255, 255), (3, 2)))):
                            continue
                        bases = [1e-3] if (npk > 5 or civ) else lat_grid(dll, 1e-3)
                        for base in bases:
                            sc = {'dll': dll, 'base_lat': base,
                                  'stacks': [{'name': 'A', 'cas': [0x10], 'win': wa, 'kw': {'minimum_tp_rts_cts_dt_interval': civ}},
                                             {'name': 'B', 'cas': [0x20], 'win': wb}],
                                  'msgs': [msg(0x10, 'p2p', 0x20, size)]}
                            bound = 0
                            if npk <= 5 and base == 1e-3:
                                sc['lat_grid'] = lat_grid(dll, base)
                                sc['wake_grid'] = WAKES
                                bound = 1 if (quick or npk > 3) else 2
                            items.append((sc, bound))
        # (2) broadcast pacing
        for npk in ([2, 3, 5, 9] if quick else [2, 3, 4, 5, 9, 17, 40]):
            size = seg * npk - 1
            for biv in (None, 0.01, 0.05, 0.1, 0.19):
                sc = {'dll': dll, 'base_lat': 1e-3,
                      'stacks': [{'name': 'A', 'cas': [0x10], 'win': 1, 'kw': {'minimum_tp_bam_dt_interval': biv}},
                                 {'name': 'B', 'cas': [0x20], 'win': 1}],
                      'msgs': [msg(0x10, 'bam2', 0x31, size)]}
                bound = 0
                if npk <= 5:
                    sc['lat_grid'] = lat_grid(dll, 1e-3)
                    sc['wake_grid'] = WAKES
                    bound = 1 if quick or npk > 3 else 2
                items.append((sc, bound))
            # two broadcasts and a connection-mode transfer at once
            sc = {'dll': dll, 'base_lat': 1e-3, 'wake_grid': WAKES,
                  'stacks': [{'name': 'A', 'cas': [0x10, 0x11], 'win': 2}, {'name': 'B', 'cas': [0x20], 'win': 3}],
                  'msgs': [msg(0x10, 'bam2', 0x31, size), msg(0x11, 'bam1', 255, size + 3), msg(0x10, 'p2p', 0x20, size + 9)]}
            items.append((sc, 1 if npk <= 5 else 0))
        # (3) stack <-> reference peer: RTS limits from a reference originator, grants / holds from a reference responder
        sizes = [seg * k - 3 for k in ([2, 3, 5, 9] if quick else [2, 3, 4, 5, 6, 9, 12, 17, 40])]
        for size in sizes:
            npk = (size + seg - 1) // seg
            for win in wins:
                for limit in (1, 2, 5, 255):
                    sc = {'dll': dll, 'role': 'resp', 'kind': 'p2p', 'size': size, 'win': win, 'limit': limit, 'sess': win % 8}
                    items.append((sc, 1 if npk <= 9 else 0))
                sc = {'dll': dll, 'role': 'orig', 'kind': 'p2p', 'size': size, 'win': win,
                      'grants': 'all' if npk <= 12 else [1, 2]}
                items.append((sc, (1 if quick else 2) if npk <= 5 else 1 if npk <= 12 else 0))
    return items


RULE = ("scenario = layer x message size (2..40 packets, thorough also 255) x max_cmdt_packets of both sides {1,2,3,8,255}^2 x "
        "RTS limit {1,2,5,255} of a reference originator x grants/holds of a reference responder x minimum BAM interval "
        "{default,10,50,100,190 ms} x minimum CMDT interval {None,1,10,50 ms}; small scenarios with every single (pair of) "
        "latency {0 (J1939-21 only),0.2,1,5 ms} / wake {0.05,1,5 ms} / peer-choice deviation; a monitor automaton judges the "
        "time-stamped bus log; distinct by (scenario, choices); all non-trivial (multi-packet)")
ASSUME = ["timing tolerance 0.1 ms below the configured interval; upper bound 200 ms + chosen wake latency + 2 ms",
          "the interval between the BAM announcement and the first data packet is judged like the others",
          "the monitor is written from the SAE layouts and shares no code with the library"]


def run(tier, seed):
    items = [(sc, b, seed) for (sc, b) in scenarios(tier)]
    items.sort(key=lambda it: -(it[1] * 3000 + (it[0].get('size') or it[0]['msgs'][0]['size'])))
    return run_check(PROP, tier, seed, 'exploration', items, worker, RULE, ASSUME,
                     bounds={'deviation_bound': 1 if tier == 'quick' else 2})


def replay(rec):
    points, probs, outcome, trace = run_one(rec['scenario'], [tuple(c) for c in rec['choices']],
                                            rec.get('seed', 0), keep=True)
    print("\n".join(trace))
    if probs:
        print("REPRODUCED: " + "; ".join(probs))
        print("VIOLATION property=%s replay=(this file)" % PROP)
        return 1
    print("no violation on this tree")
    return 0
