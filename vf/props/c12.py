"""C12 - timers fire when due and callback registrations mean what they say.
Explicit-state BFS over histories of add_timer / remove_timer / subscribe / unsubscribe /
operations issued from inside callbacks / idle gaps on a real ECU, judged against a reference
timer list.  DESIGN.md section 4 / C12."""
import time

from .. import rt
from ..runner import Acc, report
from ..net import Bus, Stack
from ..canon import canon, digest
from .. import mc

PROP = 'C12'
NCB = 3
SETTLE = 0.0005
EARLY = 1e-4
# the library advances a periodic deadline by `deadline += delta` on clock values of the magnitude of time.time()
# (1.7e9 s: one unit in the last place is 2**-22 s = 0.24 us); every addition rounds by up to half a unit, so after k
# periods the grid may be off by k * 0.12 us either way.  This is double-precision rounding, not drift in the property's sense.
HALF_ULP = 2.0 ** -23


class Cookie:
    __slots__ = ('periodic', 'reg')

    def __init__(self, periodic, reg):
        self.periodic = periodic
        self.reg = reg

    def __canon__(self):
        return ('cookie', self.periodic)


class CB:
    """timer callback i; returns the registration's periodic flag; runs a pending in-callback op first"""

    def __init__(self, h, idx):
        self.h = h
        self.idx = idx
        self.pending = []

    def __call__(self, cookie):
        h = self.h
        h.calls.append((h.w.now, self.idx, cookie.reg))
        if self.pending:
            op = self.pending.pop(0)
            for sub in (op[1:] if op[0] == 'seq' else (op,)):
                if sub[0] == 'work':
                    # the callback does slow work: the job thread is busy for that long
                    h.busy.append((h.w.now, None))
                    h.w.sleep(sub[1])
                    h.busy[-1] = (h.busy[-1][0], h.w.now)
                else:
                    h.do(sub, inside=True)
        return cookie.periodic

    def __canon__(self):
        return ('cb', self.idx, [repr(p) for p in self.pending])

    def __eq__(self, other):
        return self is other

    def __hash__(self):
        return id(self)


class MCB:
    """message callback i; runs a pending in-callback operation (unsubscribe itself / its neighbour) when it is next called"""

    def __init__(self, h, idx):
        self.h = h
        self.idx = idx
        self.pending = []

    def __call__(self, priority, pgn, sa, timestamp, data):
        self.h.mcalls.append((self.h.w.now, self.idx))
        if self.pending:
            op = self.pending.pop(0)
            (self.h.unsub_by_other if op[1] != self.idx else self.h.unsub_self).add(op[1])
            self.h.do(op, inside=True)

    def __canon__(self):
        return ('mcb', self.idx, [repr(p) for p in self.pending])


class H:
    """one real ECU + reference model"""

    def __init__(self, cfg, trace_factory=None):
        _c, eps = cfg[0], cfg[1]
        self.w = rt.World(eps_wake=eps, trace_factory=trace_factory)
        rt.activate(self.w)
        self.bus = Bus(self.w, base_lat=1e-4)
        self.st = Stack(self.bus, 'X')
        self.ecu = self.st.ecu
        self.ca = self.st.add_ca(0x80, name_value=0x4242)      # callback 2 / message callback 1 go through the CA's wrappers
        self.eps = eps
        self.cbs = [CB(self, i) for i in range(NCB)]
        self.mcbs = [MCB(self, i) for i in range(NCB)]
        self.calls = []
        self.mcalls = []
        self.regs = []          # reference: dicts reg, cb, delta, periodic, t_add, t_rm
        self.subs = [0] * NCB   # reference: registrations per message callback
        self.sub_problems = []
        self.unsub_by_other = set()   # message callbacks unsubscribed by another callback during the delivery in progress
        self.unsub_self = set()       # message callbacks that unsubscribed themselves during the delivery in progress
        self.busy = []          # intervals in which a callback kept the job thread busy
        self.w.run_for(0.01)

    def do(self, op, inside=False):
        w = self.w
        k = op[0]
        if k == 'add':
            _k, i, delta, periodic = op
            reg = len(self.regs)
            (self.ca if i == 2 else self.ecu).add_timer(delta, self.cbs[i], Cookie(periodic, reg))
            self.regs.append({'reg': reg, 'cb': i, 'delta': delta, 'periodic': periodic, 't_add': w.now, 't_rm': None})
        elif k == 'rm':
            t0 = w.now
            (self.ca if op[1] == 2 else self.ecu).remove_timer(self.cbs[op[1]])
            for r in self.regs:
                if r['cb'] == op[1] and r['t_rm'] is None:
                    r['t_rm'] = w.now
                    r['t_rm0'] = t0
        elif k == 'sub':
            (self.ca if op[1] == 1 else self.ecu).subscribe(self.mcbs[op[1]])
            self.subs[op[1]] += 1
        elif k == 'unsub':
            (self.ca if op[1] == 1 else self.ecu).unsubscribe(self.mcbs[op[1]])
            self.subs[op[1]] = 0
        elif k == 'in':
            self.cbs[op[1]].pending.append(op[2])
        elif k == 'min':
            self.mcbs[op[1]].pending.append(op[2])
        elif k == 'gap':
            w.run_for(op[1])
        if not inside and k != 'gap':
            w.run_for(SETTLE)
        if not inside and k in ('sub', 'unsub', 'min'):
            self.probe_subs()

    def probe_subs(self):
        n0 = len(self.mcalls)
        want = list(self.subs)            # registrations when the frame arrives
        self.unsub_by_other = set()
        self.unsub_self = set()
        self.bus.ghost_node().send((6 << 26) | (0xFE << 16) | (0x55 << 8) | 0x42, bytes([1, 2, 3]))
        self.w.run_for(SETTLE)
        got = [0] * NCB
        for (_t, i) in self.mcalls[n0:]:
            got[i] += 1
        if not (self.unsub_by_other or self.unsub_self):
            if got != want:
                self.sub_problems.append("a broadcast frame invoked the message callbacks %r times, registered %r" % (got, want))
            return
        # a callback unsubscribed (itself / another one) while this frame was being delivered.  What this property fixes: a
        # callback is not called again once unsubscribe(cb) has returned, and never more often than it is registered.
        # (That every *other* listener still gets the frame is C05's statement and is judged there.)
        for i in range(NCB):
            if got[i] > want[i]:
                self.sub_problems.append("a broadcast frame invoked message callback %d %d times, registered %d" % (i, got[i], want[i]))
            elif i in self.unsub_self and got[i] > 1:
                self.sub_problems.append("message callback %d was called again after its unsubscribe() had returned" % i)

    def lam(self):
        return self.eps + 0.6e-3

    def judge(self):
        """compare the observed timer calls with the reference timer list"""
        probs = list(self.sub_problems)
        now = self.w.now
        lam = self.lam()
        lt = self.st.job
        if lt.exc is not None:
            last = [l.strip() for l in lt.exc.strip().split('\n')]
            probs.append("job thread dead: %s" % lt.exc_type)
            return probs
        by_reg = {}
        for (t, i, reg) in self.calls:
            by_reg.setdefault(reg, []).append(t)
        busy = [(b0, (b1 if b1 is not None else 1e18)) for (b0, b1) in self.busy]

        def excused(due, delta=0.0):
            """a call due while another callback keeps the job thread busy may be late (until the end of that
            work + latency); a periodic timer may also skip / catch up grid points for one period after it"""
            endt = None
            for (b0, b1) in busy:
                if b0 - lam <= due <= b1 + delta + lam:
                    endt = b1 if endt is None else max(endt, b1)
            if endt is None:
                return None
            grown = True
            while grown:                      # busy stretches that follow one another without a gap
                grown = False
                for (b0, b1) in busy:
                    if b0 - lam <= endt + lam and b1 > endt:
                        endt = b1
                        grown = True
            return endt

        for r in self.regs:
            got = by_reg.get(r['reg'], [])
            end = r['t_rm']
            stop = (r.get('t_rm0', end) - EARLY) if end is not None else None
            name = "timer (callback %d, %.3f s, %s)" % (r['cb'], r['delta'], 'periodic' if r['periodic'] else 'one-shot')
            if end is not None and any(t > end + 1e-9 for t in got):
                probs.append("callback %d was called after remove_timer returned" % r['cb'])
            if got and got[0] < r['t_add'] + r['delta'] - EARLY:
                probs.append("%s first called %.4f s after registration, earlier than its period" % (name, got[0] - r['t_add']))
            if not r['periodic']:
                if len(got) > 1:
                    probs.append("one-shot %s was called %d times" % (name, len(got)))
                due = r['t_add'] + r['delta']
                ex = excused(due)
                allow = (ex + lam) if ex is not None else due + lam
                if stop is not None and allow > stop:
                    continue                # not yet overdue when the removal was entered: the call is optional
                if not got:
                    if allow < now:
                        probs.append("%s call 1 due %.4f s after registration has not happened %.4f s after it"
                                     % (name, r['delta'], now - r['t_add']))
                elif got[0] > allow:
                    probs.append("%s call 1 served %.1f ms late" % (name, (got[0] - due) * 1e3))
                continue
            # periodic: calls lie on the grid t_add + k*delta; grid points that are not excused must be served
            d = r['delta']
            k = 1
            while True:
                due = r['t_add'] + k * d
                if (stop is not None and due + lam + k * HALF_ULP > stop) or due + lam > now:
                    break                   # not yet overdue when the removal was entered / at the time of judging
                if excused(due, d) is None:
                    tol = k * HALF_ULP
                    if not any(due - EARLY - tol <= t <= due + lam + tol for t in got):
                        late = [t for t in got if t > due + lam + tol]
                        probs.append("%s call due %d periods after registration %s" % (
                            name, k, ("served %.1f ms late" % ((late[0] - due) * 1e3)) if late else "has not happened"))
                        break
                k += 1
            ngrid = 0
            for t in got:
                k0 = int((t - r['t_add']) / d)
                on_grid = False
                for kk in (k0, k0 + 1):
                    g = r['t_add'] + kk * d
                    if kk >= 1 and g - EARLY - kk * HALF_ULP <= t <= g + lam + kk * HALF_ULP:
                        on_grid = True
                        break
                g = r['t_add'] + k0 * d
                if not on_grid and not any(b1 - EARLY <= t <= b1 + lam + 1e-3 for (b0, b1) in busy):
                    probs.append("%s called %.4f s after registration: %.2f ms off its period grid (drift)" % (
                        name, t - r['t_add'], (t - g) * 1e3))
                    break
            npts = int((now - r['t_add'] + EARLY) / d) if stop is None else int((min(now, end) - r['t_add'] + EARLY) / d)
            npts = int((min(now, end if stop is not None else now) - r['t_add'] + EARLY + (npts + 1) * HALF_ULP) / d)
            if len(got) > npts:
                probs.append("%s was called %d times in %d periods" % (name, len(got), npts))
        return probs

    def first_call_pending(self):
        called = set(reg for (_t, _i, reg) in self.calls)
        return any(r['t_rm'] is None and r['reg'] not in called for r in self.regs)

    def digest(self):
        w = self.w
        lt = self.st.job
        wake = None if lt.wake_at is None else int(round((lt.wake_at - w.now) * 1000))
        return digest((canon(self.ecu, w.now, depth=3), wake))

    def close(self):
        self.w.shutdown()


def build(hist):
    h = H(hist[0])
    for op in hist[1:]:
        h.do(op)
        if h.st.job.done:
            break
    return h


def step(hist):
    h = build(hist)
    try:
        probs = h.judge()
        return (h.digest() if not probs else None), probs, None
    finally:
        h.close()


def probe(hist):
    """look-ahead: let 0.7 s and then 5.2 s pass and judge every pending registration"""
    h = build(hist)
    try:
        h.w.run_for(0.7)
        probs = h.judge()
        if not probs and h.first_call_pending():
            h.w.run_for(4.5)
            probs = h.judge()
        return probs
    finally:
        h.close()


DELTAS_Q = [0.01, 0.02, 0.5]
DELTAS_T = [0.001, 0.01, 0.02, 0.5, 3.0]
_MODE = {'tier': 'quick'}


# histories in which a fast timer keeps the job thread passing on the clock's microsecond grid, so that a pass's time stamp
# coincides exactly with the deadline of a slower periodic timer (the boundary of the library's overrun loop); judged with
# their look-ahead in both tiers
COINCIDING = [
    [('add', 0, 0.001, True), ('in', 0, ('add', 0, 0.01, False)), ('add', 0, 0.02, True)],
    [('add', 0, 0.001, True), ('in', 0, ('add', 0, 0.01, False)), ('add', 0, 0.01, True)],
    [('add', 0, 0.001, True), ('add', 1, 0.01, True), ('add', 2, 0.02, True)],
    [('add', 1, 0.001, True), ('add', 0, 0.02, True), ('gap', 0.0005), ('add', 2, 0.01, True)],
]


# histories of depth 3 / 4 in which a message callback unsubscribes itself or its neighbour while a frame is being delivered
# (depth 3 is beyond the quick tier's full-alphabet bound); judged in both tiers
UNSUB_INSIDE = [
    [('sub', 0), ('sub', 1), ('min', 0, ('unsub', 0))],
    [('sub', 1), ('sub', 0), ('min', 1, ('unsub', 1))],
    [('sub', 0), ('sub', 1), ('min', 0, ('unsub', 1))],
    [('sub', 0), ('sub', 1), ('min', 1, ('unsub', 0))],
    [('sub', 0), ('sub', 0), ('sub', 1), ('min', 0, ('unsub', 0))],
    [('sub', 0), ('sub', 1), ('sub', 1), ('min', 0, ('unsub', 0))],
]


# histories in which a timer is registered from inside a callback when the job thread's pass has already taken a while (the
# callback itself did slow work first / an earlier callback of the same pass did): the new timer counts from the call of
# add_timer, not from the beginning of the pass; judged with their look-ahead in both tiers
SLOW_PASS = [
    [('add', 0, 0.01, False), ('in', 0, ('seq', ('work', 0.03), ('add', 0, 0.02, False)))],
    [('add', 2, 0.01, False), ('in', 2, ('seq', ('work', 0.03), ('add', 2, 0.02, True)))],
    [('add', 0, 0.01, True), ('in', 0, ('seq', ('work', 0.03), ('add', 1, 0.5, False)))],
    [('add', 0, 0.01, False), ('add', 1, 0.01, False), ('in', 0, ('work', 0.03)), ('in', 1, ('add', 1, 0.02, False))],
    [('add', 0, 0.01, False), ('add', 2, 0.01, False), ('in', 0, ('work', 0.03)), ('in', 2, ('add', 2, 0.02, True))],
    [('add', 1, 0.02, True), ('add', 0, 0.02, False), ('in', 1, ('work', 0.03)), ('in', 0, ('add', 0, 0.01, False))],
]


def alphabet(hist):
    deltas = DELTAS_Q if _MODE['tier'] == 'quick' else DELTAS_T
    A = []
    for i in range(NCB):
        for d in deltas:
            for p in (False, True):
                A.append(('add', i, d, p))
    for i in range(NCB):
        A.append(('rm', i))
    for i in range(NCB):
        A.append(('in', i, ('rm', i)))
        A.append(('in', i, ('rm', (i + 1) % NCB)))
        A.append(('in', i, ('add', i, 0.01, False)))
        A.append(('in', i, ('work', 0.03)))
        A.append(('in', i, ('seq', ('work', 0.03), ('add', i, 0.02, False))))
    for i in range(2):
        A.append(('sub', i))
        A.append(('unsub', i))
        A.append(('min', i, ('unsub', i)))
        A.append(('min', i, ('unsub', (i + 1) % 2)))
    for g in ([0.005, 0.015, 0.6] if _MODE['tier'] == 'quick' else [0.0005, 0.005, 0.015, 0.6]):
        A.append(('gap', g))
    return A


def alphabet_restricted(hist):
    A = []
    for i in range(2):
        for d in (0.01, 0.02):
            for p in (False, True):
                A.append(('add', i, d, p))
        A.append(('rm', i))
    A.append(('in', 0, ('work', 0.03)))
    A.append(('gap', 0.015))
    return A


class HoldInPass:
    """trace factory: numbers the line events the job thread executes in electronic_control_unit.py once armed; at the chosen
    one the thread is held for 1 ms and, 0.3 ms into the hold, another thread performs one timer operation"""

    def __init__(self, point, op):
        self.point, self.op = point, op
        self.count = 0
        self.where = None
        self.h = None
        self.armed = False
        self.hold_iv = None

    def __call__(self, lt, idx):
        if lt.kind != 'J':
            return None
        me = self

        def tracer(frame, event, arg):
            if not frame.f_code.co_filename.endswith('electronic_control_unit.py'):
                return tracer if event == 'call' else None
            if event == 'line' and me.armed:
                me.count += 1
                if me.count == me.point:
                    me.where = "%s:%d" % (frame.f_code.co_name, frame.f_lineno)
                    w = rt.CUR
                    w.at(w.now + 0.0003, lambda: me.h.do(me.op, inside=True))
                    t0 = w.now
                    w.hold(0.001)
                    me.hold_iv = (t0, w.now)
            return tracer
        return tracer


PREEMPT_SETUP = [('add', 0, 0.01, True), ('add', 1, 0.02, False), ('add', 2, 0.02, True)]
PREEMPT_OPS = [('rm', 0), ('rm', 1), ('rm', 2), ('add', 1, 0.005, False), ('add', 0, 0.01, True)]


def preempt_run(op, point):
    hd = HoldInPass(point, op)
    h = H(('cfg', 50e-6), trace_factory=hd)
    hd.h = h
    try:
        for o in PREEMPT_SETUP:
            h.do(o)
        hd.armed = True
        h.w.run_for(0.05)
        hd.armed = False
        if hd.hold_iv is not None:
            h.busy.append(hd.hold_iv)      # the suspension itself delays whatever was due meanwhile, like a slow callback
        h.w.run_for(0.7)
        return hd.count, h.judge(), hd.where
    finally:
        h.close()


class HoldInNotify:
    """trace factory: numbers the line events the (controlled) receive thread executes in electronic_control_unit.py; at the
    chosen one the thread is held for 1 ms and, 0.3 ms into the hold, another thread calls fn (an unsubscribe)"""

    def __init__(self, point):
        self.point = point
        self.count = 0
        self.where = None
        self.fn = None

    def __call__(self, lt, idx):
        if lt.kind != 'R':
            return None
        me = self

        def tracer(frame, event, arg):
            if not frame.f_code.co_filename.endswith('electronic_control_unit.py'):
                return tracer if event == 'call' else None
            if event == 'line':
                me.count += 1
                if me.count == me.point:
                    me.where = "%s:%d" % (frame.f_code.co_name, frame.f_lineno)
                    w = rt.CUR
                    w.at(w.now + 0.0003, me.fn)
                    w.hold(0.001)
            return tracer
        return tracer


def preempt_unsub_run(k, point):
    """three message callbacks; while a broadcast frame is being delivered the receive thread is suspended at one source line
    and another thread unsubscribes callback k: it is not called after that unsubscribe has returned, the others get the frame"""
    hd = HoldInNotify(point)
    w = rt.World(trace_factory=hd)
    rt.activate(w)
    try:
        bus = Bus(w, base_lat=1e-4)
        st = Stack(bus, 'X')
        st.start_rx_thread()
        calls = []
        t_un = [None]
        cbs = [(lambda j: (lambda p, pgn, sa, ts, d: calls.append((w.now, j))))(j) for j in range(3)]
        for cb in cbs:
            st.ecu.subscribe(cb)

        def un():
            st.ecu.unsubscribe(cbs[k])
            t_un[0] = w.now
        hd.fn = un
        w.run_for(0.005)
        bus.ghost_node().send((6 << 26) | (0xFE << 16) | (0x42 << 8) | 0x99, bytes([1, 2, 3]))
        w.run_for(0.01)
        probs = []
        if any(j == k and t_un[0] is not None and t > t_un[0] + 1e-9 for (t, j) in calls):
            probs.append("message callback %d was called after unsubscribe() had returned (called from another thread while the frame was being delivered)" % k)
        if sum(1 for (_t, j) in calls if j == k) > 1:
            probs.append("message callback %d was called more often than it is registered" % k)
        if st.rx_raised:
            probs.append("receive thread: handler raised %s" % st.rx_raised[0])
        return hd.count, probs, hd.where
    finally:
        w.shutdown()


def preempt_chunk(item):
    if item[0] == 'unsub':
        acc = Acc()
        _k, k, lo, hi = item
        for pt in range(lo, hi):
            _n, probs, where = preempt_unsub_run(k, pt)
            acc.transitions += 1
            if probs:
                acc.violation(csig(probs), {'preempt': {'unsub': k, 'point': pt}, 'history': [], 'cfg': ['cfg', 50e-6]}, None,
                              probs[:3] + ["receive thread held at %s" % where])
        return acc
    return preempt_timer_chunk(item)


def preempt_timer_chunk(item):
    """C12 under pre-emption: the job thread is suspended at every source line of its pass while another thread removes
    or adds a timer; after remove_timer has returned the callback is not called any more"""
    op, lo, hi = item
    acc = Acc()
    for pt in range(lo, hi):
        _n, probs, where = preempt_run(op, pt)
        acc.transitions += 1
        if probs:
            acc.violation(csig(probs), {'preempt': {'op': list(op), 'point': pt}, 'history': [], 'cfg': ['cfg', 50e-6]}, None,
                          probs[:3] + ["job thread held at %s" % where])
    return acc


def cfg_of(hist):
    return list(hist[0])


def csig(probs):
    import re
    p = probs[0]
    p = re.sub(r'\(callback \d, [0-9.]+ s(, [a-z-]+)?\)', '', p)
    p = re.sub(r'callback \d', 'callback', p)
    p = re.sub(r'call \d+', 'a call', p)
    p = re.sub(r'[0-9.]+ (s|ms)', 'T', p)
    p = re.sub(r'\[[0-9, ]+\]', '[..]', p)
    return re.sub(r'\s+', ' ', p).strip()


RULE = ("state = canonical form of the real ECU (timer list with deadlines relative to now on a 1 ms grid, subscriber list, "
        "pending in-callback operations) + job thread's blocked-until; transition = one operation (add_timer one-shot/periodic "
        "with a period from the grid, remove_timer, subscribe, unsubscribe, the same issued from inside a timer callback (also after 30 ms of work in that callback / in an earlier callback of the same pass), a message callback "
        "that unsubscribes itself / its neighbour when next called, idle gap); "
        "every distinct state is judged against the reference timer list now, 0.7 s and 5.2 s later; additionally the job thread is "
        "suspended for 1 ms at every source line of its pass over three timers while another thread removes / adds a timer")
ASSUME = ["scheduling latency = the configured job-thread wake latency (0.05 ms or 2 ms) + 0.6 ms",
          "the k-th point of a period grid is judged with k * 0.12 us slack (double-precision rounding of deadline += delta at clock values ~1.7e9)",
          "a call that was not yet overdue (due + scheduling latency) when remove_timer was entered is optional; calls 0.1 ms early are tolerated (clock tick noise)",
          "3 timer callbacks, 2 message callbacks; periods {10,20,500 ms} quick, {1,10,20,500,3000 ms} thorough"]


class _Restricted:
    pass


def run(tier, seed):
    t0 = time.time()
    _MODE['tier'] = tier
    acc = Acc()
    nontrivial, outcomes = set(), set()
    quick = tier == 'quick'
    info = {}
    try:
        for eps in (50e-6, 2e-3):
            cfg = ('cfg', eps)
            depth = 2 if quick else 3
            roots = [[cfg]] + [[cfg] + list(h) for h in COINCIDING + UNSUB_INSIDE + SLOW_PASS]
            r = mc.bfs('vf.props.c12', roots, lambda i, d=depth: d if i == 0 else 0, acc, probe=True, sig=csig)
            info['wake_latency=%g' % eps] = {'states_per_level': r['levels'], 'depth_completed': r['depth_completed'],
                                            'frontier_emptied': r['frontier_emptied'], 'alphabet': len(alphabet([cfg]))}
            for dig, h in list(r['seen'].items())[-2:]:
                acc.sample({'history': h})
            for dig in r['seen']:
                nontrivial.add(hash(dig))
        # restricted alphabet {add, remove, gap} deeper
        cfg = ('cfg', 50e-6)
        depth = 4 if quick else 5
        r = mc.bfs('vf.props.c12r', [[cfg]], lambda i, d=depth: d, acc, probe=True, sig=csig)
        info['restricted alphabet'] = {'states_per_level': r['levels'], 'depth_completed': r['depth_completed'],
                                       'frontier_emptied': r['frontier_emptied'], 'alphabet': len(alphabet_restricted([cfg]))}
        for dig in r['seen']:
            nontrivial.add(hash(dig))
        # pre-emption part
        from ..runner import make_pool, pmap
        items = []
        for op in PREEMPT_OPS:
            n1 = preempt_run(op, 0)[0]
            n2 = preempt_run(op, 0)[0]
            if n1 != n2:
                raise RuntimeError("line-event numbering of the job thread's pass not reproducible (%d vs %d)" % (n1, n2))
            items += [(op, lo, min(lo + 20, n1 + 1)) for lo in range(1, n1 + 1, 20)]
            info.setdefault('pre-emption', {})[repr(op)] = {'line_events': n1}
        nu = preempt_unsub_run(1, 0)[0]
        if nu != preempt_unsub_run(1, 0)[0] or not nu:
            raise RuntimeError("line-event numbering of the receive thread not reproducible")
        for k in range(3):
            items += [('unsub', k, lo, min(lo + 20, nu + 1)) for lo in range(1, nu + 1, 20)]
        info.setdefault('pre-emption', {})['unsubscribe'] = {'line_events': nu}
        pool = make_pool(16)
        try:
            for a in pmap(pool, preempt_chunk, items):
                acc.transitions += a.transitions
                acc.violations.extend(a.violations)
        finally:
            pool.close()
            pool.join()
        acc.evals = acc.transitions
    except RuntimeError as e:
        print("HARNESS-ERROR property=%s\n%s" % (PROP, e))
        return 2
    acc.extra['per_configuration'] = info
    return report(PROP, tier, seed, 'model_checking', acc, nontrivial, outcomes, RULE, ASSUME, t0,
                  exhaustive=False, mc=True, nitems=3,
                  bounds={'depth_full_alphabet': 2 if quick else 3, 'depth_restricted_alphabet': 4 if quick else 5})


def replay(rec):
    if rec['scenario'].get('preempt'):
        pr = rec['scenario']['preempt']
        if 'unsub' in pr:
            n, probs, where = preempt_unsub_run(pr['unsub'], pr['point'])
            print("receive thread held at %s while another thread unsubscribes callback %d" % (where, pr['unsub']))
        else:
            n, probs, where = preempt_run(_tup(pr['op']), pr['point'])
            print("job thread held at %s while another thread performs %r" % (where, pr['op']))
        if probs:
            print("REPRODUCED: " + "; ".join(probs[:4]))
            print("VIOLATION property=%s replay=(this file)" % PROP)
            return 1
        print("no violation on this tree")
        return 0
    hist = [_tup(x) for x in rec['scenario']['history']]
    h = build(hist)
    try:
        for (t, i, reg) in h.calls:
            print("t=%.6f callback %d (registration %d)" % (t - rt.T0, i, reg))
        probs = h.judge()
        if not probs:
            h.w.run_for(0.7)
            probs = h.judge()
        if not probs:
            h.w.run_for(4.5)
            probs = h.judge()
    finally:
        h.close()
    if probs:
        print("REPRODUCED: " + "; ".join(probs[:4]))
        print("VIOLATION property=%s replay=(this file)" % PROP)
        return 1
    print("no violation on this tree")
    return 0


def _tup(x):
    return tuple(_tup(y) for y in x) if isinstance(x, list) else x
