"""C09 - originator obeys flow control and pacing; responder never over-grants.
A monitor automaton over the time-stamped bus log.  DESIGN.md section 4 / C09."""
from .. import rt
from ..explore import explore, trim
from ..runner import Acc, run_check
from ..scen import Net, npackets
from ..monitor import Monitor
from . import c03
from .c01 import msg

PROP = 'C09'
WAKES = [50e-6, 1e-3, 5e-3]


def lat_grid(dll, base):
    g = [1e-3, 0.0, 0.2e-3, 5e-3] if dll == 'j1939-21' else [1e-3, 0.2e-3, 5e-3]
    return [base] + [x for x in g if x != base]


def default_bam(dll):
    return 0.05 if dll == 'j1939-21' else 0.01


def run_ss(sc, prefix=(), seed=0, keep=False):
    """stack <-> stack"""
    net = Net(sc, prefix)
    try:
        dll = net.dll
        win_of, bam_iv, cmdt_iv = {}, {}, {}
        for sd in sc['stacks']:
            for a in sd['cas']:
                win_of[a] = sd.get('win', 1)
            kw = sd.get('kw', {})
            bi = kw.get('minimum_tp_bam_dt_interval')
            bam_iv[sd['name']] = default_bam(dll) if bi is None else bi
            cmdt_iv[sd['name']] = kw.get('minimum_tp_rts_cts_dt_interval')
        slack = max(sc.get('wake_grid') or [sc.get('eps_wake', 50e-6)])
        mon = Monitor(dll, win_of=win_of, bam_interval=bam_iv, cmdt_interval=cmdt_iv, wake_slack=slack)
        net.bus.taps.append(mon.feed)
        n = 1
        for m in sc['msgs']:
            net.submit(m, seed)
            k = npackets(dll, m['size'])
            iv = max(bam_iv.values()) if m['kind'] != 'p2p' else (max([x or 0 for x in cmdt_iv.values()]) + 0.006)
            n = max(n, k * (iv + 0.006))
        net.w.run_for(1.0 + n + (3.2 if dll == 'j1939-22' else 1.4))
        probs = ["flow control: " + t for (_who, t) in mon.problems]
        probs += net.judge_deliveries()
        probs += net.job_problems()
        return net.chooser.points, probs, net.outcome(), net.trace() if keep else None
    finally:
        net.close()


def run_sp(sc, prefix=(), seed=0, keep=False):
    """stack <-> conforming reference peer; C03's driver with the monitor's flow-control verdicts"""
    points, probs, outcome, trace = c03.run_one(sc, prefix, seed, keep)
    return points, probs, outcome, trace


def run_spb(sc, prefix=(), seed=0, keep=False):
    """one stack with a blocking driver sends two connection-mode messages to a reference peer that answers each RTS after
    its own delay, and a broadcast at the same time: the bursts occupy the job thread's passes while broadcast packets fall due"""
    from ..net import Bus, Stack, payload
    from ..refpeer import RefPeer
    ch = rt.Chooser(prefix)
    w = rt.World(ch, wake_grid=sc.get('wake_grid'))
    rt.activate(w)
    try:
        dll = sc['dll']
        bus = Bus(w, base_lat=1e-3)
        bus.send_cost = sc['send_cost']
        kw = {}
        if sc.get('biv') is not None:
            kw['minimum_tp_bam_dt_interval'] = sc['biv']
        st = Stack(bus, 'S', dll=dll, max_cmdt_packets=255, **kw)
        c1 = st.add_ca(0x10, name_value=0x1234)
        c2 = st.add_ca(0x11, name_value=0x1235)
        peer = RefPeer(bus, 'P', 0x20, dll, grants=None, holds=(0,), rlat=(1e-3,), dt_gap=(0.0,))
        peer.rlat_seq = list(sc['rlat_seq'])
        biv = sc.get('biv')
        mon = Monitor(dll, win_of={0x10: 255, 0x11: 255}, bam_interval={'S': default_bam(dll) if biv is None else biv},
                      wake_slack=1.0)       # upper pacing bound not judged here: the job thread is not idle
        bus.taps.append(mon.feed)
        w.run_for(0.01)
        seg = 7 if dll == 'j1939-21' else 60
        n = sc['npk']
        for (ca, pf, ps, size) in ((c1, 0xD0, 0x20, seg * n - 1), (c2, 0xD1, 0x20, seg * n - 2), (c1, 0xFE, 0x31, seg * 6 - 1)):
            ca.send_pgn(0, pf, ps, 6, payload(size, 0, seed))
        w.run_for(3.0)
        probs = ["flow control: " + t for (who, t) in mon.problems if who == 'S']
        probs += ["conforming peer: " + p for p in peer.problems]
        if len(peer.received) != 3 - 0 and len(peer.received) != 3:
            pass
        got = sorted(len(x[3]) for x in peer.received)
        if got != sorted([seg * n - 1, seg * n - 2, seg * 6 - 1]):
            probs.append("the peer did not receive the three messages intact (got sizes %r)" % (got,))
        if st.job.exc is not None:
            probs.append("job thread dead: %s" % st.job.exc_type)
        outcome = ([(f.src, f.can_id, f.data) for f in bus.log], 0)
        return ch.points, probs, outcome, [f.brief() for f in bus.log] if keep else None
    finally:
        w.shutdown()


def run_one(sc, prefix=(), seed=0, keep=False):
    if 'rlat_seq' in sc:
        return run_spb(sc, prefix, seed, keep)
    return run_ss(sc, prefix, seed, keep) if 'stacks' in sc else run_sp(sc, prefix, seed, keep)


def csig(probs):
    p = probs[0]
    if 'missing' in p and 'unexpected' in p:
        return 'delivery differs from the submitted messages'
    return c03.csig(probs)


def worker(item):
    sc, bound, seed = item
    acc = Acc()

    def run(prefix):
        points, probs, outcome, _ = run_one(sc, prefix, seed)
        return points, (probs, outcome)

    for choices, ndev, (probs, outcome) in explore(run, bound):
        acc.case((repr(sorted(sc.items())), trim(choices)), outcome=outcome)
        if probs:
            acc.violation(csig(probs), sc, trim(choices), probs[:4])
    acc.sample({'scenario': sc, 'deviation_bound': bound, 'executions': acc.evals})
    return acc


def scenarios(tier):
    quick = tier == 'quick'
    items = []
    for dll in ('j1939-21', 'j1939-22'):
        seg = 7 if dll == 'j1939-21' else 60
        wins = [1, 2, 3, 8, 255]
        pk = [2, 3, 5, 9, 17, 40] if quick else [2, 3, 4, 5, 6, 7, 8, 9, 10, 16, 17, 25, 33, 40, 255]
        # (1) stack <-> stack, connection mode: windows on both sides, optional minimum DT interval
        for (npk, size) in [(n, seg * n - 2) for n in pk] + [(3, seg * 3), (5, seg * 5), (4, seg * 3 + 1)]:
            for wa in wins:
                for wb in wins:
                    if quick and npk > 9 and (wa, wb) not in ((1, 1), (2, 8), (8, 2), (255, 3), (3, 255), (255, 255)):
                        continue
                    for civ in (None, 0.001, 0.01, 0.05):
                        if civ is not None and (npk > 9 or (quick and (wa, wb) not in ((2, 8), (255, 255), (3, 2)))):
                            continue
                        bases = [1e-3] if (npk > 5 or civ) else lat_grid(dll, 1e-3)
                        for base in bases:
                            sc = {'dll': dll, 'base_lat': base,
                                  'stacks': [{'name': 'A', 'cas': [0x10], 'win': wa, 'kw': {'minimum_tp_rts_cts_dt_interval': civ}},
                                             {'name': 'B', 'cas': [0x20], 'win': wb}],
                                  'msgs': [msg(0x10, 'p2p', 0x20, size)]}
                            bound = 0
                            if npk <= 5 and base == 1e-3:
                                sc['lat_grid'] = lat_grid(dll, base)
                                sc['wake_grid'] = WAKES
                                bound = 1 if (quick or npk > 3) else 2
                            items.append((sc, bound))
        # (2) broadcast pacing
        for npk in ([2, 3, 5, 9] if quick else [2, 3, 4, 5, 9, 17, 40]):
            size = seg * npk - 1
            for biv in (None, 0.01, 0.05, 0.1, 0.19):
                sc = {'dll': dll, 'base_lat': 1e-3,
                      'stacks': [{'name': 'A', 'cas': [0x10], 'win': 1, 'kw': {'minimum_tp_bam_dt_interval': biv}},
                                 {'name': 'B', 'cas': [0x20], 'win': 1}],
                      'msgs': [msg(0x10, 'bam2', 0x31, size)]}
                bound = 0
                if npk <= 5:
                    sc['lat_grid'] = lat_grid(dll, 1e-3)
                    sc['wake_grid'] = WAKES
                    bound = 1 if quick or npk > 3 else 2
                items.append((sc, bound))
            # two broadcasts and a connection-mode transfer at once
            sc = {'dll': dll, 'base_lat': 1e-3, 'wake_grid': WAKES,
                  'stacks': [{'name': 'A', 'cas': [0x10, 0x11], 'win': 2}, {'name': 'B', 'cas': [0x20], 'win': 3}],
                  'msgs': [msg(0x10, 'bam2', 0x31, size), msg(0x11, 'bam1', 255, size + 3), msg(0x10, 'p2p', 0x20, size + 9)]}
            items.append((sc, 1 if npk <= 5 else 0))
        # (2b) a blocking driver (every send call holds the sending thread 0.5 ms): a broadcast paced while long
        #      connection-mode bursts of the same stack occupy the job thread's passes
        for (wa, npk_c) in ((255, 40), (8, 24), (255, 17)):
            for biv in (None, 0.1):
                sc = {'dll': dll, 'base_lat': 1e-3, 'send_cost': 0.0005,
                      'stacks': [{'name': 'A', 'cas': [0x10, 0x11], 'win': wa, 'kw': {'minimum_tp_bam_dt_interval': biv}},
                                 {'name': 'B', 'cas': [0x20, 0x21], 'win': wa}],
                      'msgs': [msg(0x10, 'p2p', 0x20, seg * npk_c - 1), msg(0x10, 'bam2', 0x31, seg * 5 - 1),
                               msg(0x11, 'p2p', 0x21, seg * npk_c - 3), msg(0x11, 'p2p', 0x20, seg * (npk_c // 2) + 1)]}
                items.append((sc, 0))
                sc2 = dict(sc, wake_grid=WAKES)
                items.append((sc2, 1))
        # (2c) the same against a reference peer whose two clear-to-send replies arrive while broadcast packets fall due
        for biv in (None, 0.06, 0.1):
            for npk in (40, 24):
                for d1 in (0.020, 0.030, 0.045, 0.048, 0.055, 0.070, 0.095):
                    for gap in (0.004, 0.010, 0.016):
                        items.append(({'dll': dll, 'send_cost': 0.0005, 'biv': biv, 'npk': npk, 'rlat_seq': [d1, d1 + gap]}, 0))
        # (3) stack <-> reference peer: RTS limits from a reference originator, grants / holds from a reference responder
        sizes = [seg * k - 3 for k in ([2, 3, 5, 9] if quick else [2, 3, 4, 5, 6, 9, 12, 17, 40])]
        # ... and the residues at both ends: a last packet that is completely filled / carries one byte
        sizes += [seg * k for k in ([3, 5] if quick else [2, 3, 4, 5, 9])] + [seg * k + 1 for k in ([2, 4] if quick else [2, 3, 4, 8])]
        for size in sizes:
            npk = (size + seg - 1) // seg
            for win in wins:
                for limit in (1, 2, 5, 255):
                    sc = {'dll': dll, 'role': 'resp', 'kind': 'p2p', 'size': size, 'win': win, 'limit': limit, 'sess': win % 8}
                    items.append((sc, 1 if npk <= 9 else 0))
                sc = {'dll': dll, 'role': 'orig', 'kind': 'p2p', 'size': size, 'win': win,
                      'grants': 'all' if npk <= 12 else [1, 2]}
                items.append((sc, (1 if quick else 2) if npk <= 5 else 1 if npk <= 12 else 0))
    return items


RULE = ("scenario = layer x message size (2..40 packets, thorough also 255) x max_cmdt_packets of both sides {1,2,3,8,255}^2 x "
        "RTS limit {1,2,5,255} of a reference originator x grants/holds of a reference responder x minimum BAM interval "
        "{default,10,50,100,190 ms} x minimum CMDT interval {None,1,10,50 ms}; small scenarios with every single (pair of) "
        "latency {0 (J1939-21 only),0.2,1,5 ms} / wake {0.05,1,5 ms} / peer-choice deviation; a monitor automaton judges the "
        "time-stamped bus log; distinct by (scenario, choices); all non-trivial (multi-packet)")
ASSUME = ["timing tolerance 0.1 ms below the configured interval; upper bound 200 ms + chosen wake latency + 2 ms",
          "the interval between the BAM announcement and the first data packet is judged like the others",
          "the monitor is written from the SAE layouts and shares no code with the library"]


def run(tier, seed):
    items = [(sc, b, seed) for (sc, b) in scenarios(tier)]
    items.sort(key=lambda it: -(it[1] * 3000 + (it[0].get('size') or (it[0]['msgs'][0]['size'] if 'msgs' in it[0] else 300))))
    return run_check(PROP, tier, seed, 'exploration', items, worker, RULE, ASSUME,
                     bounds={'deviation_bound': 1 if tier == 'quick' else 2})


def replay(rec):
    points, probs, outcome, trace = run_one(rec['scenario'], [tuple(c) for c in rec['choices']],
                                            rec.get('seed', 0), keep=True)
    print("\n".join(trace))
    if probs:
        print("REPRODUCED: " + "; ".join(probs))
        print("VIOLATION property=%s replay=(this file)" % PROP)
        return 1
    print("no violation on this tree")
    return 0
