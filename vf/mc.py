"""Explicit-state breadth-first search over the real objects (DESIGN.md 2.5).

A state is the event history that reaches it: build(hist) makes a fresh world and replays the
real handlers.  Level-synchronous BFS, frontier expanded in parallel, de-duplication in the
parent on the digest of the canonical state."""
import time

from .runner import Acc, make_pool, pmap, NPROC, lib_exception
from .rt import Runaway


class Spec:
    """to be provided by a property module (all callables must be module-level / picklable):
       alphabet(hist)      -> list of symbols enabled after hist
       step(hist)          -> (digest, problems, info)  state reached by hist (fresh world)
       probe(hist)         -> problems                  recovery probe from that state
    """


import importlib


def _mod(name):
    return importlib.import_module(name)


def _expand(args):
    spec_mod, hist, syms = args
    spec_mod = _mod(spec_mod)
    out = []
    for s in syms:
        h = hist + [s]
        try:
            dig, probs, info = spec_mod.step(h)
        except (Exception, Runaway) as e:
            d = lib_exception(e)
            if d is None:
                raise
            dig, probs, info = None, ["the library raised %s out of a public call the scenario expects to succeed" % d], None
        out.append((s, dig, probs, info))
    return hist, out


def _probe(args):
    spec_mod, hist = args
    try:
        return hist, _mod(spec_mod).probe(hist)
    except (Exception, Runaway) as e:
        d = lib_exception(e)
        if d is None:
            raise
        return hist, ["the library raised %s out of a public call the scenario expects to succeed" % d]


def bfs(spec_mod, roots, depth_of_root, acc, budget_s=None, probe=True, sig=lambda p: p[0], label=''):
    """roots: list of histories (each a list of symbols); depth_of_root(i) -> max extra depth.
    Fills acc (states, transitions, violations, extra) and returns dict with per-depth counts."""
    modname = spec_mod
    spec_mod = _mod(modname)
    t0 = time.time()
    pool = make_pool(NPROC) if NPROC > 1 else None
    seen = {}
    budget = {}          # digest -> largest remaining depth this state was ever given
    levels = []
    frontier = []
    try:
        # root states (deepest budget first: a state keeps the largest remaining depth it is reached with)
        order = sorted(range(len(roots)), key=lambda i: -depth_of_root(i))
        for i in order:
            h = roots[i]
            dig, probs, info = spec_mod.step(list(h))
            acc.transitions += len(h)
            if probs:
                acc.violation(sig(probs), {'history': list(h), 'cfg': spec_mod.cfg_of(h)}, None, probs[:4])
                continue
            if dig not in seen:
                seen[dig] = list(h)
                budget[dig] = depth_of_root(i)
                frontier.append((list(h), depth_of_root(i)))
        new_states = [h for (h, _d) in frontier]
        depth = 0
        complete = True
        while True:
            # probe every new distinct state
            if probe and new_states:
                for hist, probs in pmap(pool, _probe, [(modname, h) for h in new_states], chunksize=4):
                    acc.add('recovery_probes')
                    if probs:
                        acc.violation(sig(probs), {'history': hist, 'cfg': spec_mod.cfg_of(hist), 'probe': True}, None, probs[:4])
            levels.append(len(new_states))
            todo = [(h, d) for (h, d) in frontier if d > 0]
            if not todo:
                break
            if budget_s is not None and time.time() - t0 > budget_s:
                complete = False
                acc.capped = True
                break
            depth += 1
            rem = {}
            for (h, d) in todo:
                k = tuple(map(repr, h))
                rem[k] = max(d, rem.get(k, 0))
            todo = [(h, d) for (h, d) in todo if rem.get(tuple(map(repr, h))) == d]
            uniq = {}
            for (h, d) in todo:
                uniq[tuple(map(repr, h))] = (h, d)
            todo = list(uniq.values())
            frontier = []
            new_states = []
            work = [(modname, h, spec_mod.alphabet(h)) for (h, _d) in todo]
            for hist, outs in pmap(pool, _expand, work, chunksize=2):
                d = rem[tuple(map(repr, hist))]
                for (s, dig, probs, info) in outs:
                    acc.transitions += 1
                    if probs:
                        acc.violation(sig(probs), {'history': hist + [s], 'cfg': spec_mod.cfg_of(hist)}, None, probs[:4])
                        continue          # a dead / spinning stack has no meaningful successors
                    if dig in seen:
                        if d - 1 > budget.get(dig, 0):
                            # reached again with more depth left than it was expanded with: expand it further
                            budget[dig] = d - 1
                            frontier.append((seen[dig], d - 1))
                        continue
                    seen[dig] = hist + [s]
                    budget[dig] = d - 1
                    frontier.append((hist + [s], d - 1))
                    new_states.append(hist + [s])
            # deterministic order whatever the worker scheduling was
            frontier.sort(key=lambda x: repr(x[0]))
            new_states.sort(key=repr)
    finally:
        if pool is not None:
            pool.close()
            pool.join()
    acc.states += len(seen)
    acc.evals = acc.transitions
    return {'levels': levels, 'depth_completed': depth, 'frontier_emptied': not frontier, 'complete': complete,
            'seen': seen}
