"""Canonical forms of live library objects, found by a generic walk over vars() - no private
attribute is named (DESIGN.md 2.5, 3.4)."""
import enum
import hashlib
import types

from . import rt

_PLAIN = (int, float, str, bytes, bool, type(None))


def _c(v, now, depth, seen):
    if isinstance(v, bool) or v is None or isinstance(v, (int, str)):
        return v
    if hasattr(v, '__canon__'):
        return v.__canon__()
    if isinstance(v, float):
        if v > rt.T0 - 1000:          # an absolute (virtual) time: keep it relative to now, 1 ms grid
            return ('t', int(round((v - now) * 1000)))
        return round(v, 6)
    if isinstance(v, (bytes, bytearray)):
        return ('b', len(v), hashlib.blake2b(bytes(v), digest_size=6).hexdigest())
    if isinstance(v, enum.Enum):
        return ('e', type(v).__name__, v.name)
    if isinstance(v, (list, tuple)):
        if len(v) > 16 and all(isinstance(x, int) for x in v):
            return ('L', len(v), hashlib.blake2b(repr(list(v)).encode(), digest_size=6).hexdigest())
        return [_c(x, now, depth, seen) for x in v]
    if isinstance(v, dict):
        items = [(repr(k), _c(x, now, depth, seen)) for k, x in v.items()]
        items.sort(key=lambda kv: kv[0])
        return ('d', items)
    if isinstance(v, (set, frozenset)):
        return ('s', sorted(repr(x) for x in v))
    if isinstance(v, (types.FunctionType, types.BuiltinFunctionType)):
        return ('f', getattr(v, '__qualname__', '?'))
    if isinstance(v, types.MethodType):
        return ('m', getattr(v.__func__, '__qualname__', '?'))
    if isinstance(v, rt.VQueue):
        return ('q', len(v.items))
    if isinstance(v, (rt.VThread, rt.VEvent, rt.VLock)):
        return ('o', type(v).__name__)
    if callable(v) and not hasattr(v, '__dict__'):
        return ('c', type(v).__name__)
    if hasattr(v, '__dict__'):
        if id(v) in seen or depth <= 0:
            return ('o', type(v).__name__)
        seen.add(id(v))
        mod = getattr(type(v), '__module__', '') or ''
        if not (mod.startswith('j1939') or mod.startswith('vf.')):
            return ('o', type(v).__name__)
        return ('O', type(v).__name__,
                [(k, _c(x, now, depth - 1, seen)) for k, x in sorted(vars(v).items())])
    return ('o', type(v).__name__)


def canon(obj, now, depth=4):
    return _c(obj, now, depth, set())


def digest(x):
    return hashlib.blake2b(repr(x).encode(), digest_size=10).hexdigest()


def containers(obj, now=0.0):
    """the mutable containers (dict / list / set) directly held by obj, canonically"""
    out = {}
    for k, v in sorted(vars(obj).items()):
        if isinstance(v, (dict, list, set)):
            out[k] = _c(v, now, 1, set())
    return out


def container_sizes(obj):
    return {k: len(v) for k, v in vars(obj).items() if isinstance(v, (dict, list, set))}
