"""C03 - wire format against an independent codec and a conforming peer.  DESIGN.md section 4 / C03."""
from .. import rt
from ..explore import explore, trim
from ..runner import Acc, run_check
from ..net import Bus, Stack, Rec, payload
from ..monitor import Monitor
from ..refpeer import RefPeer

PROP = 'C03'
SA, PA = 0x10, 0x20
RLAT = [1e-3, 0.0, 0.05, 0.15]
HOLDS = [0, 1, 2, 3]
# time between the CTS frames of a hold: the responder must repeat them within Th = 0.5 s; 0.505 = queued in time and delayed
# 5 ms by arbitration (the originator's T4 = 1.05 s exists to absorb that)
HOLDGAP = [0.4, 0.5, 0.505]
DTGAP = [0.0, 0.05, 0.19]


def build(sc, prefix=()):
    ch = rt.Chooser(prefix)
    w = rt.World(ch)
    rt.activate(w)
    bus = Bus(w, base_lat=sc.get('base_lat', 1e-3))
    dll = sc['dll']
    st = Stack(bus, 'S', dll=dll, max_cmdt_packets=sc.get('win', 1))
    ca = st.add_ca(SA, name_value=0x1234)
    rec = Rec(w)
    ca.subscribe(rec.cb('S.ca'))
    bamgap = [0.05, 0.1, 0.2] if dll == 'j1939-21' else [0.01, 0.05, 0.2]
    peer = RefPeer(bus, 'P', PA, dll, grants=sc.get('grants'), holds=sc.get('holds', HOLDS),
                   rlat=sc.get('rlat', RLAT), dt_gap=sc.get('dtgap', DTGAP), bam_gap=bamgap,
                   hold_gap=sc.get('holdgap', HOLDGAP))
    mon = Monitor(dll, win_of={SA: sc.get('win', 1)})
    if sc.get('lose_dt') is not None:
        # the j-th data packet the stack sends is lost on the bus (first transmission only); the peer asks for it again
        peer.retx = True
        mon.retx = True
        cnt = {'n': 0}
        dtpf = 0xEB if dll == 'j1939-21' else 0x4E

        def drop_fn(fr):
            if fr.src == 'S' and fr.pf == dtpf:
                cnt['n'] += 1
                return cnt['n'] == sc['lose_dt']
            return False
        bus.drop_fn = drop_fn
    bus.taps.append(mon.feed)
    w.run_for(0.01)
    return w, bus, st, ca, rec, peer, mon, ch


def run_one(sc, prefix=(), seed=0, keep=False):
    w, bus, st, ca, rec, peer, mon, ch = build(sc, prefix)
    probs = []
    try:
        dll = sc['dll']
        size = sc['size']
        data = payload(size, sc.get('pat', 0), seed)
        dp = sc.get('dp', 0)
        seg = 7 if dll == 'j1939-21' else 60
        npk = (size + seg - 1) // seg
        if sc['role'] == 'orig':
            if sc['kind'] == 'p2p':
                pf, ps, da = sc.get('pf', 0xD0), PA, PA
                pgn = (dp << 16) | (pf << 8)
            elif sc['kind'] == 'bam2':
                pf, ps, da = sc.get('pf', 0xFE), sc.get('ge', 0x42), 255
                pgn = (dp << 16) | (pf << 8) | ps
            else:
                pf, ps, da = sc.get('pf', 0xD0), 255, 255
                pgn = (dp << 16) | (pf << 8)
            r = ca.send_pgn(dp, pf, ps, sc.get('prio', 6), list(data))
            w.run_for(2.0 + npk * (0.7 if sc['kind'] == 'p2p' else 0.06) + 3 * 0.45)
            if r is not True:
                probs.append("send_pgn returned %r" % (r,))
            for (who, text) in mon.problems:
                if who == 'S':
                    probs.append("frame from the stack: " + text)
            msgs = [m for m in mon.messages if m['src'] == 'S']
            want = (SA, da, pgn, bytes(data))
            got = [(m['sa'], m['da'], m['pgn'], m['data']) for m in msgs]
            if got != [want]:
                probs.append("frames on the bus decode to %s, submitted %s" % (
                    [(hex(a), hex(b), hex(c), len(d), d[:8].hex()) for (a, b, c, d) in got],
                    (hex(want[0]), hex(want[1]), hex(want[2]), len(want[3]), want[3][:8].hex())))
            for p in peer.problems:
                probs.append("conforming peer: " + p)
            pg = [(p_, s_, d_, x) for (p_, s_, d_, x) in peer.received]
            if pg != [(pgn, SA, da, bytes(data))]:
                probs.append("conforming peer reassembled %d message(s), not exactly the submitted one" % len(pg))
        else:
            if sc['kind'] == 'p2p':
                pgn = (dp << 16) | (sc.get('pf', 0xD0) << 8)
                da = SA
            else:
                pgn = (dp << 16) | (sc.get('pf', 0xFE) << 8) | sc.get('ge', 0x42)
                da = 255
            peer.originate(da, pgn, list(data), limit=sc.get('limit', 255), sess=sc.get('sess', 0))
            w.run_for(2.0 + npk * 0.45)
            for (who, text) in mon.problems:
                if who == 'S':
                    probs.append("frame from the stack: " + text)
            for p in peer.problems:
                probs.append("conforming peer: " + p)
            got = [(pg_, sa_, d_) for (_t, _ts, _pr, pg_, sa_, d_) in rec.items]
            if got != [(pgn, PA, bytes(data))]:
                probs.append("stack delivered %s, peer sent pgn=%05X len=%d" % (
                    [(hex(a), hex(b), len(c)) for (a, b, c) in got], pgn, size))
            if sc['kind'] == 'p2p' and peer.acked != [pgn]:
                probs.append("peer's message was not acknowledged (EndOfMsgACK) by the stack")
        if st.job.exc is not None:
            probs.append("job thread dead: %s" % st.job.exc_type)
        if bus.storm:
            probs.append("frame storm: more than %d frames on the bus" % bus.cap)
        outcome = ([(f.src, f.can_id, f.data) for f in bus.log], len(rec.items))
        trace = [f.brief() for f in bus.log] if keep else None
        return ch.points, probs, outcome, trace
    finally:
        w.shutdown()


def csig(probs):
    p = probs[0]
    if p.startswith('frames on the bus decode'):
        return 'frames on the bus do not decode to the submitted message'
    if p.startswith('stack delivered'):
        return "stack did not deliver exactly the conforming peer's message"
    return p


def worker(item):
    sc, bound, seed = item
    acc = Acc()

    def run(prefix):
        points, probs, outcome, _ = run_one(sc, prefix, seed)
        return points, (probs, outcome)

    for choices, ndev, (probs, outcome) in explore(run, bound):
        acc.case((repr(sorted(sc.items())), trim(choices)), outcome=outcome)
        if probs:
            acc.violation(csig(probs), sc, trim(choices), probs[:4])
    acc.sample({'scenario': sc, 'deviation_bound': bound, 'executions': acc.evals})
    return acc


def scenarios(tier):
    quick = tier == 'quick'
    items = []
    for dll in ('j1939-21', 'j1939-22'):
        if dll == 'j1939-21':
            small = [9, 14, 15, 20, 21, 22, 29]
            mid = [28, 35, 63, 64, 70, 71, 84]
            large = [255, 1779, 1785]
        else:
            small = [61, 82, 120, 121, 143, 179, 181]      # 82, 143: a short last segment of 22 / 23 bytes (FD length 32 after padding)
            mid = [119, 180, 240, 241, 600, 601]
            large = [1785, 15300, 65536, 70000]      # beyond 65535 bytes: the third byte of the 24-bit size field is in use
        wins = [1, 2, 3, 255] if quick else [1, 2, 3, 5, 8, 255]
        limits = (1, 2, 5, 255) if quick else (1, 2, 3, 5, 8, 255)
        if not quick:
            # every size across the first packet boundaries
            extra = list(range(9, 65)) if dll == 'j1939-21' else list(range(61, 250, 1))
            mid = sorted(set(mid) | set(x for x in extra if x not in small))
        # (a) stack originates
        for size in small + mid + large:
            for win in wins:
                if size in large and win in (2, 3) and quick:
                    continue
                bound = (2 if size in small else 1 if size in mid else 0) if not quick else (1 if size in small + mid[:3] else 0)
                if not quick and size in (28, 35, 63, 64, 70, 71, 84, 119, 180, 240, 241) and win in (1, 255):
                    bound = 2           # thorough: pairs of peer choices on the boundary sizes of the middle range too
                if not quick and size in small:
                    bound = 3           # thorough: triples of peer choices on the smallest messages
                if not quick and size in mid and size not in (28, 35, 63, 64, 70, 71, 84, 119, 180, 240, 241, 600, 601) and win not in (2, 255):
                    continue
                grants = 'all' if size in small + mid else [1, 2]
                sc = {'dll': dll, 'role': 'orig', 'kind': 'p2p', 'size': size, 'win': win, 'grants': grants,
                      'pat': size % 3, 'dp': size % 2}
                if size in large:
                    sc.update({'holds': [0], 'rlat': [1e-3], 'dtgap': [0.0]})
                items.append((sc, bound))
            for kind in ('bam2', 'bam1'):
                sc = {'dll': dll, 'role': 'orig', 'kind': kind, 'size': size, 'win': 1, 'pat': (size + 1) % 3}
                items.append((sc, 0))
        # (a2) stack originates and the peer always holds the connection first (2 or 3 hold CTS, also between windows): the
        #      spacing of the hold frames {0.4, 0.5 (= Th), 0.505 s} and the peer's other choices are then single deviations
        for size in small[:3]:
            for win in (1, 255):
                for nh in (2, 3):
                    sc = {'dll': dll, 'role': 'orig', 'kind': 'p2p', 'size': size, 'win': win, 'grants': [1, 2],
                          'pat': size % 3, 'dp': size % 2, 'holds': [nh, 0]}
                    items.append((sc, 1 if quick else 2))
        # (a3) J1939-22 only (the J1939-21 originator does not implement retransmission, see DESIGN 9): one data packet of the
        #      stack is lost and the conforming peer asks for the packets again from the missing one on - which the standard lets a
        #      responder do and the stack's CTS handler implements; the frames must still decode to the message
        if dll == 'j1939-22':
            for size in (121, 181, 240, 241):
                nseg = (size + 59) // 60
                for win in (2, 3, 255):
                    for j in range(1, nseg + 1):
                        if j % min(win, nseg) == 0 or j == nseg:
                            continue        # the last packet of a window: the peer notices nothing until its timeout
                        sc = {'dll': dll, 'role': 'orig', 'kind': 'p2p', 'size': size, 'win': win, 'grants': None,
                              'pat': size % 3, 'holds': [0], 'rlat': [1e-3], 'dtgap': [0.0], 'lose_dt': j}
                        items.append((sc, 0))
        # (b) conforming peer originates
        for size in small + mid + large:
            for win in wins:
                for limit in limits:
                    if quick and (size in large or size in mid[3:]) and (win, limit) not in ((1, 255), (255, 255), (3, 2), (255, 1)):
                        continue
                    bound = 1 if size in small + mid else 0
                    if not quick and size in small:
                        bound = 2
                    sc = {'dll': dll, 'role': 'resp', 'kind': 'p2p', 'size': size, 'win': win, 'limit': limit,
                          'pat': size % 3, 'sess': (size + win) % 8}
                    if size in large:
                        sc.update({'rlat': [1e-3], 'dtgap': [0.0]})
                    items.append((sc, bound))
            sc = {'dll': dll, 'role': 'resp', 'kind': 'bam', 'size': size, 'win': 1, 'sess': size % 4}
            items.append((sc, 1 if size not in large else 0))
        # (c) broadcast of PDU2 groups over the corners of the PGN space: first / last PDU2 format byte, group extensions
        #     0x00, 0x01, 0xFE, 0xFF (0xFF is not a destination here), both data pages; sent and received by the stack
        for pf in (0xF0, 0xFE, 0xFF):
            for ge in (0x00, 0x01, 0xFE, 0xFF):
                for dp in (0, 1):
                    size = small[(pf + ge + dp) % 3]
                    items.append(({'dll': dll, 'role': 'orig', 'kind': 'bam2', 'size': size, 'win': 1, 'pat': dp, 'pf': pf, 'ge': ge, 'dp': dp}, 0))
                    items.append(({'dll': dll, 'role': 'resp', 'kind': 'bam', 'size': size, 'win': 1, 'sess': ge % 4, 'pf': pf, 'ge': ge, 'dp': dp}, 0))
    return items


RULE = ("scenario = layer x role of the stack (originator / responder / BAM sender / BAM receiver) x size x the stack's "
        "window x the peer's RTS limit; the conforming reference peer's free choices (grant per CTS 1..min(limit, "
        "remaining), 0..3 hold CTS spaced {0.4, 0.5, 0.505} s, reply latency {0,1,50,150 ms}, packet spacing {0,50,190 ms}, BAM spacing "
        "{50,100,200} / {10,50,200} ms) are choice points explored with deviation bound 1 (small sizes thorough: 2); broadcasts of PDU2 "
        "groups over PF {F0,FE,FF} x group extension {00,01,FE,FF} x data page, sent and received; "
        "distinct by (scenario, choices), all non-trivial (every case is a multi-packet transfer)")
ASSUME = ["the reference codec / peer are the harness author's implementation of the SAE layouts (J1939-22: from memory, "
          "normative text not available offline)", "retransmission requests are outside the property's envelope and are not generated",
          "the PGN of a PDU1 group is (data page, PF, 0): the PS byte is the destination"]


def run(tier, seed):
    items = [(sc, b, seed) for (sc, b) in scenarios(tier)]
    items.sort(key=lambda it: -(it[1] * 3000 + it[0]['size']))
    return run_check(PROP, tier, seed, 'exploration', items, worker, RULE, ASSUME,
                     bounds={'deviation_bound_over_peer_choices': 1 if tier == 'quick' else 2})


def replay(rec):
    points, probs, outcome, trace = run_one(rec['scenario'], [tuple(c) for c in rec['choices']],
                                            rec.get('seed', 0), keep=True)
    print("\n".join(trace))
    if probs:
        print("REPRODUCED: " + "; ".join(probs))
        print("VIOLATION property=%s replay=(this file)" % PROP)
        return 1
    print("no violation on this tree")
    return 0
