#!/venv/bin/python
"""rewrites sections 10 and 11 of DESIGN.md (after the marker) from evidence/*.json, thorough_results.json and seeded/*/meta.json"""
import json, os, glob
HERE = '/verif'
MARK = '<!-- generated tables below: tools/design_tables.py -->'
d = open(HERE + '/DESIGN.md').read()
if MARK in d:
    d = d[:d.index(MARK)]
out = [MARK, '', '## 10. Measured coverage (last committed runs on the repaired tree)', '',
       'All 19 thorough tiers were re-run, and were silent, after the last change to the harness (waves 13-17); `vp check` request 6 (fresh restore, `VERIF_SEED=1`) found nothing needing attention, and the quick tier is silent for seeds 0, 1, 2, 3, 5, 7. Quick tier from `evidence/*.json` as committed; thorough tier from `thorough_results.json` (the thorough runs are '
       'executed with `./check <ID> --tier thorough`; their evidence files are overwritten by the next quick run, so the '
       'numbers are kept in that file).', '',
       '| property | level | quick: executions / distinct non-trivial / states / wall | thorough: executions / states / wall |', '|---|---|---|---|']
thor = {}
if os.path.exists(HERE + '/thorough_results.json'):
    thor = json.load(open(HERE + '/thorough_results.json'))
for f in sorted(glob.glob(HERE + '/evidence/C*.json')):
    e = json.load(open(f))
    c = e['coverage']
    q = "%d / %d / %s / %.0f s" % (c.get('evaluations', 0), c.get('distinct_nontrivial', 0), c.get('states', '-'), e['wall_s'])
    t = thor.get(e['property_id'])
    ts = "%d / %s / %.0f s%s" % (t['evaluations'], t.get('states') or '-', t['wall_s'], '' if t.get('exhaustive', True) else '') if t else 'see MANIFEST thorough_cmd'
    out.append("| %s | %s | %s | %s |" % (e['property_id'], e['level'], q, ts))
out += ['', '## 11. Seeded changes vs. checks', '',
        'rc 1 = the quick check of that property reports a VIOLATION with a replay file. Sub-agent changes (`Cxx?`) were written '
        'from the property text only; `Rnn` is the reverse of the nn-th `fix:` commit. `RF?` are behaviour-preserving '
        'refactorings: every quick check must stay silent on them.', '',
        '| change | breaks | needs in order to manifest | detected by (quick tier) |', '|---|---|---|---|']
for dd in sorted(glob.glob(HERE + '/seeded/*/meta.json')):
    m = json.load(open(dd))
    i = m['id']
    det = m.get('detected_by', {})
    if m.get('kind', '').startswith('behaviour-preserving'):
        out.append("| %s | nothing (refactoring) | %s | silent: %s |" % (i, m.get('needs', ''), m.get('silent', '?')))
        continue
    prop = m.get('property') or '/'.join(sorted(det)) or '?'
    needs = m.get('needs') or m.get('subject', '')
    out.append("| %s | %s | %s | %s |" % (i, prop, needs.replace('|', '/'), ", ".join("%s%s" % (p, '' if ok else ' (not by this one)') for p, ok in sorted(det.items())) or 'pending'))
open(HERE + '/DESIGN.md', 'w').write(d.rstrip('\n') + '\n\n' + "\n".join(out) + '\n')
print('tables written')
