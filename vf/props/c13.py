"""C13 - a controller application sends application data only from an address it holds.
Every claim state visited by the C04 scenarios is probed in place at every send entry point
(bus in capture mode, so the probe does not perturb the run).  DESIGN.md section 4 / C13."""
from ..explore import explore, trim
from ..runner import Acc, run_check
from . import c04

PROP = 'C13'


def worker(chunk):
    acc = Acc()
    for (sc, bound, seed) in chunk:
        def run(prefix):
            points, probs, outcome, _, nprobes = c04.run_one(sc, prefix, seed, probes=True)
            return points, (probs, outcome, nprobes)

        for choices, ndev, (probs, outcome, nprobes) in explore(run, bound):
            acc.case((repr(sorted(sc.items())), trim(choices)), nontrivial=len(set(outcome[1])) > 1 or len(outcome[0]) > len(sc['cas']),
                     outcome=outcome)
            acc.add('entry_point_probes', nprobes)
            if probs:
                acc.violation(csig(probs), sc, trim(choices), probs[:4])
    acc.sample({'scenario': chunk[0][0], 'deviation_bound': chunk[0][1],
                'probe': 'every entry point, for every CA, 10 us and 6 ms after every bus frame and every 125 ms'})
    return acc


def csig(probs):
    import re
    return re.sub(r'\(state \d\)', '', re.sub(r'address \d+', 'address N', probs[0])).strip()


def scenarios(tier):
    quick = tier == 'quick'
    items = []
    for (sc, bound) in c04.configs(tier):
        n = len(sc['cas'])
        if bound == 0 and any(c.get('bypass') for c in sc['cas']):
            if n == 2 or not quick:
                items.append((sc, 0))         # a bypassed, started CA contended by the others
            continue
        if bound == 0:
            # uniform-latency families: keep the contended ones on a thinner delay grid
            dl = tuple(c['delay'] for c in sc['cas'])
            if quick and (n > 2 or any(d in (0.1, 0.4) for d in dl)):
                if not (n == 3 and dl in ((0.0, 0.0, 0.0), (0.0, 0.249, 0.7), (0.7, 0.0, 0.251)) and sc['base_lat'] in (1e-3, 0.0)):
                    continue
            items.append((sc, 0))
        else:
            if quick and n > 2:
                continue
            items.append((sc, 1))
    # claiming bypassed and started, then contended (the C04 families with a bypassed CA are included above when bound == 0)
    # claiming bypassed, and never started
    for aac in (0, 1):
        sc = {'cas': [{'idn': 1, 'aac': aac, 'addr': 128, 'delay': 0.0, 'never': True}, {'idn': 2, 'aac': aac, 'addr': 129, 'delay': 0.0}],
              'base_lat': 1e-3}
        items.append((sc, 0))
    return items


RULE = ("the C04 scenario families (2..3 CAs, NAME orderings, AAC or fixed, equal / adjacent / distinct addresses, claim delays, "
        "uniform latencies; 2-CA families with every single latency / wake deviation); in every run every CA is probed at "
        "8 send entry points (send_pgn PDU1 / PDU2, send_message, send_request ordinary / ADDRESSCLAIM, DM22 request, DM1 send, "
        "DM14 request) 10 us and 6 ms after every bus frame and every 125 ms; non-trivial if the CAs' final states differ or "
        "a contention took place")
ASSUME = ["'holds no address' = the CA's public state is not operational; additionally a reference model built from the bus "
          "(last own claim vs. later claims of lower NAMEs delivered to the stack) flags application data sent from a lost address",
          "the library's re-claim path enters the operational state on the next claim-timer tick (possibly < 250 ms): not judged here",
          "DM1 / DM14 probes call the methods the services' timers / facades call (skipped if renamed)"]


def run(tier, seed):
    items = [(sc, b, seed) for (sc, b) in scenarios(tier)]
    heavy = [[it] for it in items if it[1] > 0]
    light = [it for it in items if it[1] == 0]
    chunks = heavy + [light[i:i + 25] for i in range(0, len(light), 25)]
    return run_check(PROP, tier, seed, 'exploration', chunks, worker, RULE, ASSUME,
                     bounds={'deviation_bound': 1})


def replay(rec):
    return c04.replay(rec, PROP, probes=True)
