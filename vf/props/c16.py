"""C16 - diagnostic trouble codes and lamp states arrive exactly as sent (DM1, DTC, DM22).
Exhaustive input enumeration against the J1939-73 reference codec, end-to-end DM1 transfers for
every trouble-code count, and all start_send / stop_send histories up to a depth.
DESIGN.md section 4 / C16."""
import itertools

from .. import rt
from ..runner import Acc, run_check
from ..net import Bus, Stack, j1939
from ..monitor import Monitor
from .. import refcodec as R

PROP = 'C16'
CA = j1939.ControllerApplication
DM1_PGN = 0xFECA
SPN_B = [0, 1, 0xFF, 0x100, 0xFFFF, 0x10000, 0x1FFFF, 0x20000, 0x3FFFF, 0x40000, 0x55555, 0x2AAAA, 0x7FFFE, 0x7FFFF]
FMI_B = [0, 1, 15, 16, 30, 31]
OC_B = [0, 1, 63, 64, 126, 127]


# ------------------------------------------------------------------ (a) DTC codec
def dtc_worker(item):
    _k, lo, hi, seed = item
    acc = Acc()
    sc = {'part': 'dtc codec', 'spn_range': [lo, hi]}
    n = 0

    def one(spn, fmi, oc):
        d = j1939.DTC(spn=spn, fmi=fmi, oc=oc)
        v = d.dtc
        b = [v & 0xFF, (v >> 8) & 0xFF, (v >> 16) & 0xFF, (v >> 24) & 0xFF]
        if b != R.dtc_encode(spn, fmi, oc):
            acc.violation("DTC encoding: a field is not at its J1939-73 bit position", sc, None,
                          "spn=%d fmi=%d oc=%d -> %s expected %s" % (spn, fmi, oc, bytes(b).hex(), bytes(R.dtc_encode(spn, fmi, oc)).hex()))
            return False
        rb = R.dtc_encode(spn, fmi, oc)
        d2 = j1939.DTC(dtc=rb[0] | (rb[1] << 8) | (rb[2] << 16) | (rb[3] << 24))
        if (d2.spn, d2.fmi, d2.oc) != (spn, fmi, oc):
            acc.violation("DTC decoding: a field is not read from its J1939-73 bit position", sc, None,
                          "bytes %s -> spn=%d fmi=%d oc=%d expected %d %d %d" % (bytes(rb).hex(), d2.spn, d2.fmi, d2.oc, spn, fmi, oc))
            return False
        return True

    for spn in range(lo, hi):
        for (fmi, oc) in ((0, 0), (31, 127), (21, 42), ((seed * 5 + 10) & 31, (seed * 11 + 85) & 127)):
            n += 1
            if not one(spn, fmi, oc):
                acc.evals = n
                return acc
    if lo == 0:
        for spn in SPN_B:
            for fmi in range(32):
                for oc in range(128):
                    n += 1
                    if not one(spn, fmi, oc):
                        acc.evals = n
                        return acc
    acc.evals = n
    acc.nontrivial = set(range(lo, hi))
    acc.sample({'part': 'dtc codec', 'spn': lo, 'fmi': 31, 'oc': 127})
    return acc


# ------------------------------------------------------------------ two stacks with DM1 services
class Pair:
    def __init__(self, dll, cas=((0x10,), (0x20,)), trace_factory=None):
        self.w = w = rt.World(trace_factory=trace_factory)
        rt.activate(w)
        self.bus = bus = Bus(w, base_lat=1e-3)
        self.dll = dll
        self.A = Stack(bus, 'A', dll=dll)
        self.B = Stack(bus, 'B', dll=dll)
        self.acas = [self.A.add_ca(a, name_value=0x100 + a) for a in cas[0]]
        self.bcas = [self.B.add_ca(a, name_value=0x100 + a) for a in cas[1]]
        self.mon = Monitor(dll)
        bus.taps.append(self.mon.feed)
        self.got = []
        self.rx = j1939.Dm1(self.bcas[0])
        self.rx.subscribe(lambda sa, lamps, dtcs, ts: self.got.append((w.now, sa, dict(lamps), [dict(d) for d in dtcs])))
        w.run_for(0.005)

    def dm1_payloads(self, sa=None):
        """DM1 payloads on the bus, decoded by the reference codec / monitor: [(t, sa, bytes)]"""
        out = []
        for f in self.bus.log:
            if not f.ext or f.src == 'B':
                continue
            if self.dll == 'j1939-21':
                if f.pf == 0xFE and f.ps == 0xCA:
                    out.append((f.t, f.sa, bytes(f.data)))
            else:
                if f.pf == 0x25:
                    try:
                        for (tos, tf, cpgn, pl) in R.multipg_decode(f.data):
                            if cpgn == DM1_PGN:
                                out.append((f.t, f.sa, pl))
                    except ValueError:
                        out.append((f.t, f.sa, b'undecodable multi-PG'))
        for m in self.mon.messages:
            if m['pgn'] == DM1_PGN and m['src'] == 'A':
                out.append((m['t'], m['sa'], m['data']))
        out.sort()
        return [x for x in out if sa is None or x[1] == sa]

    def dm1_payloads_all(self):
        """like dm1_payloads but from both stacks"""
        out = []
        for f in self.bus.log:
            if not f.ext:
                continue
            if self.dll == 'j1939-21':
                if f.pf == 0xFE and f.ps == 0xCA:
                    out.append((f.t, f.sa, bytes(f.data)))
            elif f.pf == 0x25:
                try:
                    for (tos, tf, cpgn, pl) in R.multipg_decode(f.data):
                        if cpgn == DM1_PGN:
                            out.append((f.t, f.sa, pl))
                except ValueError:
                    out.append((f.t, f.sa, b'undecodable multi-PG'))
        for m in self.mon.messages:
            if m['pgn'] == DM1_PGN:
                out.append((m['t'], m['sa'], m['data']))
        out.sort()
        return out

    def close(self):
        self.w.shutdown()


def lamp_name(d):
    return {k: d.get(k) or 0 for k in R.LAMPS}


def dm1_worker(item):
    _k, dll, cases, seed = item
    acc = Acc()
    for (n, lamps) in cases:
        sc = {'part': 'dm1 end to end', 'dll': dll, 'dtc_count': n, 'lamps': lamps}
        p = Pair(dll)
        try:
            dtcs = [{'spn': (i * 7919 + 3 + seed) & 0x7FFFF, 'fmi': (i * 5 + 1) & 31, 'oc': (i * 3 + 2) & 127} for i in range(n)]
            if n >= 3:
                dtcs[0] = {'spn': 0x7FFFF, 'fmi': 31, 'oc': 127}
                dtcs[1] = {'spn': 0x40000, 'fmi': 0, 'oc': 0}
                dtcs[2] = {'spn': 0x10000, 'fmi': 16, 'oc': 64}
            lamp_d = dict(zip(R.LAMPS, lamps))
            size = 2 + 4 * n
            seg = 7 if dll == 'j1939-21' else 60
            single = size <= (8 if dll == 'j1939-21' else 60)
            transport = 0.0 if single else ((size + seg - 1) // seg + 2) * (0.052 if dll == 'j1939-21' else 0.0105)
            cycle = max(0.25, round(transport * 1.3 + 0.1, 2))
            tx = j1939.Dm1(p.acas[0])
            cb = lambda: (dict(lamp_d), [dict(d) for d in dtcs])
            tx.start_send(cb, cycle)
            cycles = 2
            p.w.run_for(cycle * cycles + transport + 0.05)
            tx.stop_send(cb)
            t_stop = p.w.now
            p.w.run_for(cycle * 2 + transport + 0.2)
            want_bytes = bytes(R.dm1_encode(lamp_d, dtcs))
            probs = []
            pl = p.dm1_payloads(0x10)
            started_after = [x for x in pl if x[0] > t_stop + (transport if not single else 0) + 1e-3]
            if single and any(x[0] > t_stop + 1e-6 for x in pl):
                probs.append("DM1 sent after stop_send returned")
            elif started_after:
                probs.append("DM1 sent after stop_send returned")
            before = [x for x in pl if x[0] <= t_stop + transport + 1e-3]
            if len(before) != cycles:
                probs.append("%d DM1 message(s) on the bus in %d cycles" % (len(before), cycles))
            for (_t, _sa, b) in before[:1]:
                if b != want_bytes:
                    k = next((i for i in range(min(len(b), len(want_bytes))) if b[i] != want_bytes[i]), min(len(b), len(want_bytes)))
                    probs.append("DM1 bytes on the bus differ from the J1939-73 encoding at byte %d (%s)" % (
                        k + 1, 'lamp bytes' if k < 2 else 'trouble code %d byte %d' % ((k - 2) // 4 + 1, (k - 2) % 4 + 1)))
            want_cb = (0x10, lamp_name(lamp_d), dtcs)
            gotn = [(sa, lamp_name(l), d) for (_t, sa, l, d) in p.got]
            if single and size < 8 and dll == 'j1939-21':
                pass
            if gotn[:cycles] != [want_cb] * cycles:
                if len(gotn) < cycles:
                    probs.append("DM1 subscriber was called %d times in %d cycles" % (len(gotn), cycles))
                else:
                    g = gotn[0]
                    if g[1] != want_cb[1]:
                        probs.append("DM1 subscriber received lamp states %r, sent %r" % (g[1], want_cb[1]))
                    elif g[2] != want_cb[2]:
                        k = next((i for i in range(min(len(g[2]), n)) if g[2][i] != dtcs[i]), min(len(g[2]), n))
                        probs.append("DM1 subscriber received a different trouble code list (first difference at code %d: %r vs %r)"
                                     % (k + 1, g[2][k] if k < len(g[2]) else None, dtcs[k] if k < n else None))
                    else:
                        probs.append("DM1 subscriber received a wrong source address")
            for st in (p.A, p.B):
                if st.job.exc is not None:
                    probs.append("job thread of %s dead: %s" % (st.name, st.job.exc_type))
            acc.case(('dm1', dll, n, tuple(lamps)), outcome=(dll, n, len(pl), len(p.got)))
            if probs:
                acc.violation(csig(probs[0]), sc, None, probs[:3])
        finally:
            p.close()
    acc.sample({'part': 'dm1 end to end', 'dll': dll, 'dtc_count': cases[0][0], 'lamps': cases[0][1]})
    return acc


def csig(p):
    import re
    return re.sub(r'(?<![A-Za-z])\d+', 'N', p.split(' (')[0].split(' {')[0])[:100]


# ------------------------------------------------------------------ (c) DM22
def dm22_worker(item):
    _k, lo, hi, seed = item
    acc = Acc()
    sc = {'part': 'dm22', 'spn_range': [lo, hi]}
    w = rt.World()
    rt.activate(w)
    try:
        bus = Bus(w)
        st = Stack(bus, 'A')
        ca = st.add_ca(0x10, name_value=0x77)
        d = j1939.Dm22(ca)
        w.run_for(0.002)
        n = 0

        def one(active, spn, fmi, dest):
            bus.capture = []
            (d.request_clear_act_dtc if active else d.request_clear_pa_dtc)(dest, spn, fmi)
            fr = bus.capture
            bus.capture = None
            want = bytes(R.dm22_request(17 if active else 1, spn, fmi))
            ok = len(fr) == 1 and fr[0].data == want and fr[0].pf == 0xC3 and fr[0].ps == dest and fr[0].sa == 0x10
            if not ok:
                acc.violation("DM22 request: SPN / FMI / control byte not at their J1939-73 positions", sc, None,
                              "%s spn=%d fmi=%d -> %s expected %s" % ('active' if active else 'previously active', spn, fmi,
                                                                     [f.brief() for f in fr], want.hex()))
            return ok

        for spn in range(lo, hi):
            for (active, fmi) in ((True, 31), (False, 0), (True, (spn * 7 + seed) & 31)):
                n += 1
                if not one(active, spn, fmi, 0x20):
                    acc.evals = n
                    return acc
        if lo == 0:
            for spn in SPN_B:
                for fmi in range(32):
                    for active in (True, False):
                        for dest in (0x20, 0xFF, 0x00):
                            n += 1
                            if not one(active, spn, fmi, dest):
                                acc.evals = n
                                return acc
        acc.evals = n
        acc.nontrivial = set(range(lo + (1 << 20), hi + (1 << 20)))
        acc.sample({'part': 'dm22', 'spn': hi - 1, 'fmi': 31, 'active': True})
    finally:
        w.shutdown()
    return acc


# ------------------------------------------------------------------ (d) start / stop histories
DELTAS = [0.1, 0.5, 1.0]
GAPS = [0.05, 0.3, 1.2]


def hist_alphabet():
    A = []
    for d in (0, 1):
        for dl in DELTAS:
            A.append(('start', d, dl))
        A.append(('stop', d))
    for g in GAPS:
        A.append(('gap', g))
    return A


def run_history(dll, hist, acc, lam=1.5e-3):
    """two Dm1 objects (two CAs of stack A), one user callback each; reference: every registration sends one DM1 per
    cycle from its CA's address until stop_send of that object returned"""
    p = Pair(dll, cas=((0x10, 0x11), (0x20,)))
    sc = {'part': 'start/stop history', 'dll': dll, 'history': [list(h) for h in hist]}
    try:
        w = p.w
        objs = [j1939.Dm1(ca) for ca in p.acas]
        cbs = [(lambda i=i: ({'pl': 1, 'mil': i}, [{'spn': 100 + i, 'fmi': 3, 'oc': 1}])) for i in (0, 1)]
        regs = []          # [obj index, t_start, delta, t_stop]
        for h in hist:
            if h[0] == 'start':
                objs[h[1]].start_send(cbs[h[1]], h[2])
                regs.append([h[1], w.now, h[2], None, None])
            elif h[0] == 'stop':
                t0 = w.now
                objs[h[1]].stop_send(cbs[h[1]])
                for r in regs:
                    if r[0] == h[1] and r[3] is None:
                        r[3] = w.now
                        r[4] = t0
            else:
                w.run_for(h[1])
            w.run_for(1e-4)
        w.run_for(2.3)
        now = w.now
        probs = []
        for i in (0, 1):
            times = [t for (t, sa, b) in p.dm1_payloads(0x10 + i)]
            used = [False] * len(times)
            myregs = [r for r in regs if r[0] == i]
            for r in myregs:
                k = 1
                while True:
                    due = r[1] + k * r[2]
                    if (r[4] is not None and due > r[4] - 1e-4) or due + lam > now:
                        break
                    hit = next((j for j, t in enumerate(times) if not used[j] and due - 1e-4 <= t <= due + lam), None)
                    if hit is None:
                        probs.append("DM1 cycle %d of a %.1f s registration is missing on the bus" % (k, r[2]))
                        break
                    used[hit] = True
                    k += 1
            last_stop = None
            if myregs and all(r[3] is not None for r in myregs):
                last_stop = max(r[3] for r in myregs)
            for j, t in enumerate(times):
                if not myregs:
                    probs.append("DM1 on the bus from a CA that never started sending")
                    break
                if last_stop is not None and t > last_stop + 1e-9:
                    # still running registrations? (a start after the stop)
                    later = [r for r in myregs if r[1] > last_stop]
                    if not later:
                        probs.append("DM1 sent after stop_send returned")
                        break
            # per registration: no frame after its own stop unless another registration of the object explains it
            for j, t in enumerate(times):
                if used[j]:
                    continue
                expl = any((r[3] is None or t <= r[3] + 1e-9) and t >= r[1] + r[2] - 1e-4 for r in myregs)
                if not expl and myregs:
                    probs.append("DM1 sent after stop_send returned")
                    break
        for st in (p.A, p.B):
            if st.job.exc is not None:
                probs.append("job thread of %s dead: %s" % (st.name, st.job.exc_type))
        acc.case(('hist', dll, tuple(hist)), nontrivial=any(h[0] == 'stop' for h in hist) and any(h[0] == 'start' for h in hist),
                 outcome=(dll, len(p.dm1_payloads())))
        if probs:
            acc.violation(csig(probs[0]), sc, None, sorted(set(probs))[:3])
    finally:
        p.close()


def hist_worker(item):
    _k, dll, prefix, depth, seed = item
    acc = Acc()
    A = hist_alphabet()
    for d in range(0, depth - len(prefix) + 1):
        for tail in itertools.product(A, repeat=d):
            hist = list(prefix) + list(tail)
            if not any(h[0] == 'start' for h in hist):
                continue
            run_history(dll, hist, acc)
            if len(acc.violations) > 5:
                break
    acc.sample({'part': 'start/stop history', 'dll': dll, 'history': list(prefix) + [A[3], A[8]]})
    return acc


# ------------------------------------------------------------------ (e) cycles keep coming when a cycle collides with the transport
def overlap_worker(item):
    _k, dll, n, cycle, seed = item
    acc = Acc()
    sc = {'part': 'cycle overlaps transport', 'dll': dll, 'dtc_count': n, 'cycle': cycle}
    p = Pair(dll)
    try:
        supplied = []

        def cb():
            # the content changes from call to call: a received DM1 must be one complete supplied list
            k = len(supplied)
            dt = [{'spn': 1000 + i + 7 * k, 'fmi': (i + k) & 31, 'oc': (i + 3 * k) & 127} for i in range(n)]
            lamps = {'awl': 1 + (k & 1), 'pl': k % 4}
            supplied.append((lamps, dt))
            return dict(lamps), [dict(d) for d in dt]
        tx = j1939.Dm1(p.acas[0])
        tx.start_send(cb, cycle)
        size = 2 + 4 * n
        seg = 7 if dll == 'j1939-21' else 60
        transport = ((size + seg - 1) // seg + 2) * (0.052 if dll == 'j1939-21' else 0.0105)
        import math
        eff = math.ceil((transport + 0.01) / cycle) * cycle
        T = eff * 6 + transport
        p.w.run_for(T)
        want = int(T / eff) - 2
        ok_lists = [(lamp_name(l), d) for (l, d) in supplied]
        got = [g for g in p.got if (lamp_name(g[2]), g[3]) in ok_lists]
        probs = []
        if len(got) < want:
            probs.append("DM1 stopped arriving although stop_send was never called (%d received, at least %d expected)" % (len(got), want))
        if len(got) != len(p.got):
            probs.append("DM1 subscriber received lamp states / trouble codes that no single callback call supplied (torn message)")
        acc.case(('overlap', dll, n, cycle), outcome=(dll, n, len(got)))
        if probs:
            acc.violation(csig(probs[0]), sc, None, probs)
    finally:
        p.close()
    acc.sample(sc)
    return acc


def exchange_worker(item):
    """both nodes use ONE Dm1 object for sending and receiving, and their callbacks hand out the same (persistent) table
    objects on every call: what a node sends must stay its own table, whatever it receives in between"""
    _k, dll, n, seed = item
    acc = Acc()
    sc = {'part': 'one Dm1 object sends and receives', 'dll': dll, 'dtc_count': n}
    p = Pair(dll)
    try:
        w = p.w
        tabA = [{'spn': 100 + i, 'fmi': 1 + i, 'oc': 2 + i} for i in range(n)]
        tabB = [{'spn': 0x4000 + i, 'fmi': 17, 'oc': 9} for i in range(n)]
        lampA, lampB = {'pl': 1, 'awl': 0, 'rsl': 0, 'mil': 2}, {'pl': 0, 'awl': 3, 'rsl': 1, 'mil': 0}
        refA = bytes(R.dm1_encode(lampA, tabA))
        refB = bytes(R.dm1_encode(lampB, tabB))
        dA, dB = j1939.Dm1(p.acas[0]), j1939.Dm1(p.bcas[0])
        gotA, gotB = [], []
        dA.subscribe(lambda sa, lamps, dtcs, ts: gotA.append((sa, lamp_name(lamps), [dict(d) for d in dtcs])))
        dB.subscribe(lambda sa, lamps, dtcs, ts: gotB.append((sa, lamp_name(lamps), [dict(d) for d in dtcs])))
        seg = 7 if dll == 'j1939-21' else 60
        cyc = 0.3 if 2 + 4 * n <= (8 if dll == 'j1939-21' else 60) else 0.3 + ((2 + 4 * n) // seg + 2) * (0.052 if dll == 'j1939-21' else 0.011)
        dA.start_send(lambda: (lampA, tabA), cyc)
        w.run_for(cyc / 2)
        dB.start_send(lambda: (lampB, tabB), cyc)
        w.run_for(cyc * 4.2)
        probs = []
        frames = p.dm1_payloads_all()
        fromA = [b for (_t, sa, b) in frames if sa == 0x10]
        fromB = [b for (_t, sa, b) in frames if sa == 0x20]
        if len(fromA) < 3 or len(fromB) < 3:
            probs.append("DM1 cycles missing on the bus (%d / %d messages)" % (len(fromA), len(fromB)))
        if any(b != refA for b in fromA) or any(b != refB for b in fromB):
            k = next(i for i, b in enumerate(fromA + fromB) if b not in (refA, refB) or (i < len(fromA)) != (b == refA))
            probs.append("a node's DM1 no longer carries its own lamp states / trouble codes after it received a DM1 from another node (message %d)" % (k + 1))
        wantA = (0x20, lamp_name(lampB), tabB_copy(n))
        if any(g != (0x20, lamp_name({'pl': 0, 'awl': 3, 'rsl': 1, 'mil': 0}), [{'spn': 0x4000 + i, 'fmi': 17, 'oc': 9} for i in range(n)]) for g in gotA):
            probs.append("DM1 subscriber received something else than the other node's table")
        acc.case(('exchange', dll, n), outcome=(dll, n, len(fromA), len(fromB)))
        if probs:
            acc.violation(csig(probs[0]), sc, None, probs[:3])
    finally:
        p.close()
    acc.sample(sc)
    return acc


class HoldInDm1:
    """trace factory: numbers the line events the job thread of stack A executes in diagnostic_messages.py; at the chosen one
    a DM1 from a third node is put on the bus and the job thread is held until it has been handled by A's receive thread"""

    def __init__(self, point, frame, kind='J', hold=0.003):
        self.point, self.frame = point, frame
        self.count = 0
        self.where = None
        self.bus = None
        self.seen_j = 0
        self.kind = kind            # 'J': the job thread of stack A is held (and the frame injected); 'R': its receive thread is held
        self.hold = hold

    def __call__(self, lt, idx):
        if lt.kind != self.kind:
            return None
        k = self.seen_j
        self.seen_j += 1
        if k != 0:
            return None
        me = self

        def tracer(frame, event, arg):
            fn = frame.f_code.co_filename
            if not fn.endswith('diagnostic_messages.py'):
                return tracer if event == 'call' else None
            if event == 'line':
                me.count += 1
                if me.count == me.point:
                    me.where = "%s:%d" % (frame.f_code.co_name, frame.f_lineno)
                    if me.frame is not None:
                        me.bus.ghost_node().send(*me.frame)
                    rt.CUR.hold(me.hold)
            return tracer
        return tracer


def race_worker(item):
    """one Dm1 object sends and receives; the job thread is pre-empted at every source line of the DM1 code while a DM1 of
    a third node is received: what the node sends stays what its callback supplied"""
    _k, dll, n, seed = item
    acc = Acc()
    tabA = [{'spn': 100 + i, 'fmi': 1 + i, 'oc': 2 + i} for i in range(n)]
    lampA = {'pl': 1, 'awl': 0, 'rsl': 0, 'mil': 2}
    refA = bytes(R.dm1_encode(lampA, tabA))
    lampF, tabF = {'pl': 0, 'awl': 3, 'rsl': 1, 'mil': 0}, [{'spn': 0x7777, 'fmi': 9, 'oc': 33}]
    foreign = ((6 << 26) | (0xFE << 16) | (0xCA << 8) | 0x33, bytes(R.dm1_encode(lampF, tabF)) + b'\xff\xff')

    def one(point):
        hold = HoldInDm1(point, foreign)
        p = Pair('j1939-21', trace_factory=hold)
        hold.bus = p.bus
        try:
            w = p.w
            dA = j1939.Dm1(p.acas[0])
            gotA = []
            dA.subscribe(lambda sa, lamps, dtcs, ts: gotA.append((sa, lamp_name(lamps), [dict(d) for d in dtcs])))
            dA.start_send(lambda: (dict(lampA), [dict(d) for d in tabA]), 0.2)
            w.run_for(0.2 * 2.6 + (0.06 * (n + 1) if n > 1 else 0))
            probs = []
            fromA = [b for (_t, sa, b) in p.dm1_payloads_all() if sa == 0x10]
            if len(fromA) < 2:
                probs.append("DM1 cycles missing on the bus (%d messages)" % len(fromA))
            if any(b != refA for b in fromA):
                probs.append("a node's DM1 does not carry what its callback supplied: a DM1 of another node was received while it was being built")
            if point and gotA != [(0x33, lamp_name(lampF), tabF)]:
                probs.append("the DM1 of the third node was not delivered to the subscriber as sent")
            if p.A.job.exc is not None:
                probs.append("job thread dead: %s" % p.A.job.exc_type)
            return hold.count, probs, hold.where
        finally:
            p.close()
    total, probs, _ = one(0)
    total2 = one(0)[0]
    if total != total2 or probs:
        acc.violation("HARNESS: DM1 race baseline not clean / not reproducible", {'part': 'dm1 race', 'dtc_count': n}, None, probs[:2] + [repr((total, total2))])
        return acc
    for point in range(1, total + 1):
        _c, probs, where = one(point)
        sc = {'part': 'job thread pre-empted in the DM1 code', 'dll': 'j1939-21', 'dtc_count': n, 'point': point}
        acc.case(repr(sc), outcome=(bool(probs), where))
        if probs:
            acc.violation(csig(probs[0]), sc, None, probs[:3] + ["held at %s" % where])
    acc.sample({'part': 'job thread pre-empted in the DM1 code', 'dtc_count': n, 'line_events': total})
    return acc


def race_rx_worker(item):
    """the mirror image: the receive thread of the node is held at every source line of the DM1 code while it handles the DM1
    of a third node, long enough for the node's own cyclic DM1 to be built and sent in between: the subscriber still gets the
    third node's lamp states and trouble codes under the third node's address"""
    _k, dll, n, seed = item
    acc = Acc()
    tabA = [{'spn': 100 + i, 'fmi': 1 + i, 'oc': 2 + i} for i in range(n)]
    lampA = {'pl': 1, 'awl': 0, 'rsl': 0, 'mil': 2}
    refA = bytes(R.dm1_encode(lampA, tabA))
    lampF, tabF = {'pl': 0, 'awl': 3, 'rsl': 1, 'mil': 0}, [{'spn': 0x7777, 'fmi': 9, 'oc': 33}]
    foreign = ((6 << 26) | (0xFE << 16) | (0xCA << 8) | 0x33, bytes(R.dm1_encode(lampF, tabF)) + b'\xff\xff')

    def one(point):
        hold = HoldInDm1(point, None, kind='R', hold=0.02)
        p = Pair('j1939-21', trace_factory=hold)
        hold.bus = p.bus
        try:
            w = p.w
            p.A.start_rx_thread()
            dA = j1939.Dm1(p.acas[0])
            gotA = []
            dA.subscribe(lambda sa, lamps, dtcs, ts: gotA.append((sa, lamp_name(lamps), [dict(d) for d in dtcs])))
            cyc = 0.1 if n == 1 else 0.4
            dA.start_send(lambda: (dict(lampA), [dict(d) for d in tabA]), cyc)
            # the third node's DM1 arrives 10 ms before the node's own cycle is due: a hold of 20 ms spans the own _send
            w.run_for(cyc - 0.011)
            p.bus.ghost_node().send(*foreign)
            w.run_for(cyc * 2 + 0.2)
            probs = []
            fromA = [b for (_t, sa, b) in p.dm1_payloads_all() if sa == 0x10]
            if len(fromA) < 2:
                probs.append("DM1 cycles missing on the bus (%d messages)" % len(fromA))
            if any(b != refA for b in fromA):
                probs.append("a node's DM1 does not carry what its callback supplied: a DM1 of another node was received while it was being built")
            if gotA != [(0x33, lamp_name(lampF), tabF)]:
                probs.append("the subscriber did not get the third node's DM1 as sent (the node's own DM1 was built while it was being handled): %r" % (gotA[:1],))
            if p.A.job.exc is not None:
                probs.append("job thread dead: %s" % p.A.job.exc_type)
            if p.A.rx_raised:
                probs.append("receive thread: handler raised %s" % p.A.rx_raised[0])
            return hold.count, probs, hold.where
        finally:
            p.close()
    total, probs, _ = one(0)
    total2 = one(0)[0]
    if total != total2 or probs or not total:
        acc.violation("HARNESS: DM1 receive race baseline not clean / not reproducible", {'part': 'dm1 race rx', 'dtc_count': n}, None, probs[:2] + [repr((total, total2))])
        return acc
    for point in range(1, total + 1):
        _c, probs, where = one(point)
        sc = {'part': 'receive thread pre-empted in the DM1 code', 'dll': 'j1939-21', 'dtc_count': n, 'point': point}
        acc.case(repr(sc), outcome=(bool(probs), where))
        if probs:
            acc.violation(csig(probs[0]), sc, None, probs[:3] + ["held at %s" % where])
    acc.sample({'part': 'receive thread pre-empted in the DM1 code', 'dtc_count': n, 'line_events': total})
    return acc


def early_start_worker(item):
    """start_send is called while the CA is still claiming its address (veto window) or before it was started at all: nothing is
    sent before the CA holds an address, and from then on the DM1 comes every cycle until stop_send; the job thread survives"""
    _k, dll, seed = item
    acc = Acc()
    for (addr, start_delay) in ((0x90, 0.0), (0x90, 0.12), (0x10, 0.0), (0x10, 0.12)):
        for cyc in (0.05, 0.1, 0.3):
            sc = {'part': 'start_send before the address is claimed', 'dll': dll, 'address': addr, 'ca_start_delay': start_delay, 'cycle': cyc}
            w = rt.World()
            rt.activate(w)
            try:
                bus = Bus(w, base_lat=1e-3)
                A = Stack(bus, 'A', dll=dll)
                B = Stack(bus, 'B', dll=dll)
                nm = j1939.Name(arbitrary_address_capable=0, identity_number=0x55, manufacturer_code=0x123)
                ca = j1939.ControllerApplication(nm, addr)
                A.ecu.add_ca(controller_application=ca)
                cb = B.add_ca(0x20, name_value=0x999)
                got = []
                rx = j1939.Dm1(cb)
                rx.subscribe(lambda sa, lamps, dtcs, ts: got.append((w.now, sa, len(dtcs))))
                w.run_for(0.005)
                t0 = w.now
                tx = j1939.Dm1(ca)
                src = lambda: ({'pl': 1, 'awl': 0, 'rsl': 0, 'mil': 0}, [{'spn': 100, 'fmi': 3, 'oc': 1}])
                tx.start_send(src, cyc)
                w.at(t0 + start_delay, lambda: ca.start(claim_delay=0.0))
                w.run_for(1.2)
                probs = []
                if A.job.exc is not None:
                    probs.append("job thread dead (%s): the cyclic DM1 came due before the CA held an address" % A.job.exc_type)
                claimed = [f.t for f in bus.log if f.src == 'A' and f.pf == 0xEE]
                t_ok = (claimed[0] + (0.25 if 127 < addr < 248 else 0.0)) if claimed else None
                early = [f for f in bus.log if f.src == 'A' and f.pf != 0xEE and (t_ok is None or f.t < t_ok - 1e-6)]
                if early:
                    probs.append("a frame left the stack before its CA held an address")
                if t_ok is not None and not probs:
                    n_exp = int((t0 + 1.2 - t_ok - 0.02) / cyc) - 1
                    n_got = len([g for g in got if g[1] == addr])
                    if n_got < max(1, n_exp):
                        probs.append("%d DM1 received in the %.2f s after the address was claimed, cycle %.2f s" % (n_got, t0 + 1.2 - t_ok, cyc))
                acc.case(repr(sc), outcome=len(probs))
                if probs:
                    acc.violation(csig(probs[0]), sc, None, probs[:3])
            finally:
                w.shutdown()
    acc.sample({'part': 'start_send before the address is claimed', 'dll': dll})
    return acc


def loss_in_callback_worker(item):
    """the CA loses its address to a lower NAME while the job thread is inside the application's DM1 data callback (a slow
    callback): no DM1 leaves from the lost address afterwards, the job thread survives, and an arbitrary-address-capable CA goes on
    sending its DM1 every cycle from the address it moves to"""
    _k, dll, seed = item[:3]
    prop = item[3] if len(item) > 3 else 'C16'       # C13 judges the same executions for frames from the lost address
    acc = Acc()
    for aac in (0, 1):
        for slow in (0.002, 0.01):
            sc = {'part': 'address lost during the DM1 data callback', 'dll': dll, 'aac': aac, 'callback_s': slow}
            w = rt.World()
            rt.activate(w)
            try:
                bus = Bus(w, base_lat=2e-4)
                A = Stack(bus, 'A', dll=dll)
                B = Stack(bus, 'B', dll=dll)
                nm = j1939.Name(arbitrary_address_capable=aac, identity_number=0x55, manufacturer_code=0x123)
                ca = j1939.ControllerApplication(nm, 0x90, bypass_address_claim=True)
                A.ecu.add_ca(controller_application=ca)
                ca.start(claim_delay=0.0)
                cb = B.add_ca(0x20, name_value=0x999)
                got = []
                rx = j1939.Dm1(cb)
                rx.subscribe(lambda sa, lamps, dtcs, ts: got.append((w.now, sa, len(dtcs))))
                w.run_for(0.005)
                st = {'n': 0, 'lost_at': None}
                tx = j1939.Dm1(ca)

                def src():
                    st['n'] += 1
                    if st['n'] == 2:
                        # a lower NAME claims 0x90 while this callback is running
                        w.at(w.now + slow / 3, lambda: bus.ghost_node().send((6 << 26) | (0xEE << 16) | (0xFF << 8) | 0x90, bytes([1, 0, 0, 0, 0, 0, 0, 0])))
                        st['lost_at'] = w.now + slow / 3 + 2e-4
                        w.sleep(slow)
                    return ({'pl': 1, 'awl': 0, 'rsl': 0, 'mil': 0}, [{'spn': 100, 'fmi': 3, 'oc': 1}])
                tx.start_send(src, 0.1)
                w.run_for(1.3)
                probs = []
                late = [f for f in bus.log if f.src == 'A' and f.sa == 0x90 and f.pf != 0xEE and st['lost_at'] is not None and f.t > st['lost_at'] + 1e-6]
                if prop == 'C13':
                    if late:
                        probs.append("a DM1 left the stack from address 144 after the CA had lost it")
                elif A.job.exc is not None:
                    probs.append("job thread dead (%s): the CA lost its address while the DM1 was being prepared" % A.job.exc_type)
                if prop == 'C16' and aac and not probs and not late:
                    n_new = len([g for g in got if g[1] == 0x91])
                    if n_new < 5:
                        probs.append("%d DM1 received from the new address 145 in the second after the move, cycle 0.1 s" % n_new)
                acc.case(repr(sc), outcome=len(probs))
                if probs:
                    acc.violation(csig(probs[0]), sc, None, probs[:3])
            finally:
                w.shutdown()
    acc.sample({'part': 'address lost during the DM1 data callback', 'dll': dll})
    return acc


def dynsub_worker(item):
    """DM1 subscribers that unsubscribe (themselves / a neighbour) from inside the callback: every other subscriber still
    receives that DM1, the next cycle reaches exactly those still registered"""
    _k, dll, seed = item
    acc = Acc()
    for k in range(3):
        for action in ('unsub_self', 'unsub_next', 'unsub_prev'):
            sc = {'part': 'subscriber unsubscribes inside its callback', 'dll': dll, 'k': k, 'action': action}
            p = Pair(dll)
            try:
                w = p.w
                calls = []
                reg = [True, True, True]
                cbs = []
                st = {'armed': True}

                def make(j):
                    def cb(sa, lamps, dtcs, ts):
                        calls.append((w.now, j, len(dtcs)))
                        if j == k and st['armed']:
                            st['armed'] = False
                            t = {'unsub_self': k, 'unsub_next': (k + 1) % 3, 'unsub_prev': (k - 1) % 3}[action]
                            st['touched'] = t
                            if reg[t]:
                                p.rx.unsubscribe(cbs[t])
                                reg[t] = False
                    return cb
                for j in range(3):
                    cbs.append(make(j))
                    p.rx.subscribe(cbs[j])
                tx = j1939.Dm1(p.acas[0])
                src = lambda: ({'pl': 1, 'awl': 0, 'rsl': 0, 'mil': 0}, [{'spn': 100, 'fmi': 3, 'oc': 1}])
                tx.start_send(src, 0.1)
                w.run_for(0.35)
                tx.stop_send(src)
                w.run_for(0.2)
                cycles = sorted(set(round(t, 4) for (t, _j, _n) in calls) | set(round(t, 4) for (t, _sa, _l, _d) in p.got))
                probs = []
                if len(p.got) < 3:
                    probs.append("HARNESS: fewer than 3 DM1 cycles observed")
                for ci, tc in enumerate(sorted(set(round(t, 4) for (t, _sa, _l, _d) in p.got))):
                    got = [sum(1 for (t, j, _n) in calls if j == jj and round(t, 4) == tc) for jj in range(3)]
                    touched = st.get('touched')
                    for jj in range(3):
                        if ci == 0:
                            if jj == touched and action != 'unsub_self':
                                ok = got[jj] <= 1
                            else:
                                ok = got[jj] == 1
                        else:
                            ok = got[jj] == (1 if reg[jj] else 0)
                        if not ok:
                            probs.append("DM1 cycle %d: subscriber %d was called %d time(s)%s" % (
                                ci, jj, got[jj], (" while subscriber %d unsubscribes inside its callback" % k) if ci == 0 else " (registered: %s)" % reg[jj]))
                acc.case(repr(sc), outcome=len(probs))
                if probs:
                    acc.violation("a DM1 subscriber is not called exactly once per DM1 while another one unsubscribes inside its callback"
                                  if 'HARNESS' not in probs[0] else probs[0], sc, None, probs[:3])
            finally:
                p.close()
    acc.sample({'part': 'subscriber unsubscribes inside its callback', 'dll': dll})
    return acc


def tabB_copy(n):
    return [{'spn': 0x4000 + i, 'fmi': 17, 'oc': 9} for i in range(n)]


def worker(item):
    if item[0] == 'exchange':
        return exchange_worker(item)
    if item[0] == 'dynsub':
        return dynsub_worker(item)
    if item[0] == 'early_start':
        return early_start_worker(item)
    if item[0] == 'loss_in_cb':
        return loss_in_callback_worker(item)
    if item[0] == 'race':
        return race_worker(item)
    if item[0] == 'race_rx':
        return race_rx_worker(item)
    return {'dtc': dtc_worker, 'dm1': dm1_worker, 'dm22': dm22_worker, 'hist': hist_worker, 'overlap': overlap_worker}[item[0]](item)


RULE = ("(a) DTC encode/decode: all 2^19 SPNs x 4 (FMI, OC) pairs and all 32x128 (FMI, OC) pairs x 14 boundary SPNs against the "
        "J1939-73 layout; (b) DM1 end to end on two real stacks for every trouble-code count (quick: boundary counts, thorough: "
        "1..400) on both layers (single frame / BAM / multi-PG / FD BAM) and all 5^4 lamp combinations, bus bytes decoded by the "
        "reference codec, subscriber arguments compared, two cycles then stop_send; (c) DM22 requests: all SPNs x 3 FMIs and all "
        "FMIs x boundary SPNs, active and previously active; (d) all start_send / stop_send / gap histories up to depth 3 (thorough "
        "4) over two Dm1 objects and cycle times {0.1,0.5,1 s}; (e) cycles that collide with their own transport")
ASSUME = ["J1939-73 bit positions from the reference codec (SPN low 16 bits in bytes 1-2, SPN bits 16..18 in byte 3 bits 8..6, FMI byte 3 "
          "bits 5..1, OC byte 4 bits 7..1)", "stop_send stops the cyclic sending of that Dm1 object (one user callback per object)",
          "cycle time chosen longer than the transport time except in part (e)"]


def run(tier, seed):
    quick = tier == 'quick'
    items = []
    step = 1 << 14
    for lo in range(0, 1 << 19, step):
        items.append(('dtc', lo, lo + step, seed))
        items.append(('dm22', lo, lo + step, seed))
    counts = [1, 2, 3, 4, 5, 10, 14, 15, 16, 29, 30, 100, 399, 400] if quick else list(range(1, 401))
    all_lamps = list(itertools.product(range(5), repeat=4))
    for dll in ('j1939-21', 'j1939-22'):
        cases = [(n, all_lamps[(n * 37) % 625]) for n in counts]
        cases.sort(key=lambda c: -c[0])
        for i in range(0, len(cases), 2):
            items.append(('dm1', dll, cases[i:i + 2], seed))
        lc = [(1, l) for l in all_lamps] + [(3, l) for l in all_lamps[::5]]
        for i in range(0, len(lc), 40):
            items.append(('dm1', dll, lc[i:i + 40], seed))
        A = hist_alphabet()
        depth = 3 if quick else 5
        for a in A:
            if quick:
                items.append(('hist', dll, (a,), depth, seed))
            else:
                for b in A:
                    items.append(('hist', dll, (a, b), depth, seed))
        for (n, cycle) in ((24, 0.4), (10, 0.1), (35, 1.0), (3, 0.05)) if dll == 'j1939-21' else ((100, 0.05), (30, 0.02), (400, 0.1)):
            items.append(('overlap', dll, n, cycle, seed))
        for n in (1, 2, 3, 14, 15, 40):
            items.append(('exchange', dll, n, seed))
        items.append(('dynsub', dll, seed))
        items.append(('early_start', dll, seed))
        items.append(('loss_in_cb', dll, seed))
    for n in ((1, 2, 5) if quick else (1, 2, 3, 4, 5, 8)):
        items.append(('race', 'j1939-21', n, seed))
        items.append(('race_rx', 'j1939-21', n, seed))
    return run_check(PROP, tier, seed, 'exploration', items, worker, RULE, ASSUME,
                     bounds={'dtc_counts': '1..400' if not quick else counts, 'history_depth': 3 if quick else 5})


def replay(rec):
    sc = rec['scenario']
    acc = Acc()
    part = sc.get('part')
    if part == 'dm1 end to end':
        dm1_worker(('dm1', sc['dll'], [(sc['dtc_count'], tuple(sc['lamps']))], rec.get('seed', 0))).violations and acc.violations.append(1)
        a = dm1_worker(('dm1', sc['dll'], [(sc['dtc_count'], tuple(sc['lamps']))], rec.get('seed', 0)))
    elif part == 'start/stop history':
        a = Acc()
        run_history(sc['dll'], [tuple(h) for h in sc['history']], a)
    elif part == 'cycle overlaps transport':
        a = overlap_worker(('overlap', sc['dll'], sc['dtc_count'], sc['cycle'], rec.get('seed', 0)))
    elif part == 'one Dm1 object sends and receives':
        a = exchange_worker(('exchange', sc['dll'], sc['dtc_count'], rec.get('seed', 0)))
    elif part == 'job thread pre-empted in the DM1 code':
        a0 = race_worker(('race', sc['dll'], sc['dtc_count'], rec.get('seed', 0)))
        a = Acc()
        a.violations = [v for v in a0.violations if v['scenario'] == sc]
    elif part == 'receive thread pre-empted in the DM1 code':
        a0 = race_rx_worker(('race_rx', sc['dll'], sc['dtc_count'], rec.get('seed', 0)))
        a = Acc()
        a.violations = [v for v in a0.violations if v['scenario'] == sc]
    elif part == 'address lost during the DM1 data callback':
        a0 = loss_in_callback_worker(('loss_in_cb', sc['dll'], rec.get('seed', 0)))
        a = Acc()
        a.violations = [v for v in a0.violations if v['scenario'] == sc]
    elif part == 'start_send before the address is claimed':
        a0 = early_start_worker(('early_start', sc['dll'], rec.get('seed', 0)))
        a = Acc()
        a.violations = [v for v in a0.violations if v['scenario'] == sc]
    elif part == 'subscriber unsubscribes inside its callback':
        a0 = dynsub_worker(('dynsub', sc['dll'], rec.get('seed', 0)))
        a = Acc()
        a.violations = [v for v in a0.violations if v['scenario'] == sc]
    elif part == 'dm22':
        a = dm22_worker(('dm22', sc['spn_range'][0], sc['spn_range'][1], rec.get('seed', 0)))
    else:
        a = dtc_worker(('dtc', sc['spn_range'][0], sc['spn_range'][1], rec.get('seed', 0)))
    if a.violations:
        print("REPRODUCED: %s %s" % (a.violations[0]['sig'], a.violations[0]['detail']))
        print("VIOLATION property=%s replay=(this file)" % PROP)
        return 1
    print("no violation on this tree")
    return 0
