#!/venv/bin/python
"""Regenerates MANIFEST.json from the table below (kept valid at all times)."""
import json, os
HERE = os.path.dirname(os.path.abspath(__file__))
BASE = "cd /repo && /venv/bin/python -m pytest -ra -q -p no:cacheprovider --timeout=900 --continue-on-collection-errors"
CHECKS = {}   # filled by manifest_table.py
exec(open(os.path.join(HERE, 'manifest_table.py')).read())
props = [json.loads(l)['id'] for l in open(os.path.join(HERE, 'properties.jsonl'))]
checks = []
na = []
for p in props:
    c = CHECKS.get(p)
    if c is None or c.get('na'):
        na.append({'property_id': p, 'reason': (c or {}).get('na', 'check not built yet (work in progress); planned in DESIGN.md section 4')})
        continue
    checks.append({
        'property_id': p,
        'quick_cmd': './check %s --tier quick' % p,
        'thorough_cmd': './check %s --tier thorough' % p,
        'evidence_file': 'evidence/%s.json' % p,
        'replay_cmd_template': './check %s --replay {path}' % p,
        'engine': c['engine'],
        'level_claimed': {'category': c['level'], 'text': c['text'], 'design_ref': 'DESIGN.md section 4 / %s' % p},
        'level_note': c['note'],
        'technique': c['technique'],
    })
m = {
    'version': 1,
    'setup_cmd': './check selftest',
    'hooks': {'guard': 'J1939_VERIF', 'enable': 'none needed: the checks import /repo/j1939 from the working tree with time/queue/threading substituted at import time (vf/loader.py); J1939_VERIF=1 is exported for the record only',
              'baseline_off_cmd': BASE, 'source_commits': [], 'add_only': True},
    'engines': [
        {'name': 'vworld', 'path': 'vf/rt.py vf/net.py vf/scen.py vf/explore.py', 'serves_properties': [c['property_id'] for c in checks],
         'kind_free_text': 'deterministic virtual world (virtual clock, baton threads, virtual CAN bus, fault injector) running the real classes; stateless deviation-bounded explorer and explicit-state BFS over the real objects'},
    ],
    'checks': checks,
    'not_applicable': na,
    'notes': 'All checks execute the unmodified library classes from /repo/j1939 inside a deterministic virtual world and enumerate schedules / faults / histories / inputs exhaustively within stated bounds (DESIGN.md). Exit 2 = harness error (never a verdict).',
}
json.dump(m, open(os.path.join(HERE, 'MANIFEST.json'), 'w'), indent=1)
print('checks', len(checks), 'not_applicable', len(na))
