"""Self-test run at the start of every check: determinism of the virtual world (the same
scenario and choice list replayed twice gives byte-identical observations) and sanity of the
bus rules (a stack's receive handler never nests)."""
import sys

from . import rt


def _once(sc, prefix):
    from .scen import Net
    net = Net(sc, prefix)
    try:
        for i, m in enumerate(sc['msgs']):
            if sc.get('rx_threads'):
                net.w.spawn(net.submit, (m,), name='app%d' % i)
            else:
                net.submit(m)
        net.w.run_for(3.0)
        nested = [n.name for n in net.bus.nodes if n.nested_rx]
        return repr((net.outcome(), [(f.t, f.idx) for f in net.bus.log], net.chooser.points, nested))
    finally:
        net.close()


def quick():
    from .props.c01 import msg, stacks3, lat_grid, WAKES
    cases = []
    for dll, size in (('j1939-21', 20), ('j1939-22', 150)):
        sc = {'dll': dll, 'stacks': stacks3(2, 1, 1), 'base_lat': 1e-3, 'lat_grid': lat_grid(1e-3),
              'wake_grid': WAKES, 'msgs': [msg(0x10, 'p2p', 0x20, size), msg(0x20, 'bam2', 0x01, size)]}
        cases.append((sc, []))
        cases.append((sc, [('wake', 0), ('wake', 0), ('wake', 0), ('lat', 1)]))
    # every party on a thread of its own, blocking driver, frame visible before the send call returns
    for dll, size in (('j1939-21', 20), ('j1939-22', 150)):
        cases.append(({'dll': dll, 'stacks': stacks3(2, 1, 1), 'base_lat': 0.2e-3, 'send_cost': 2e-3, 'send_visible': 0.0,
                       'rx_threads': True, 'msgs': [msg(0x10, 'p2p', 0x20, size), msg(0x20, 'bam2', 0x01, size)]}, []))
    for sc, prefix in cases:
        try:
            a = _once(sc, prefix)
            b = _once(sc, prefix)
        except rt.HarnessError as e:
            # a prefix that does not fit the choice sequence is a test-definition error
            sys.stdout.write("HARNESS-ERROR selftest: %s\n" % e)
            return 2
        if a != b:
            sys.stdout.write("HARNESS-ERROR selftest: replay of one schedule is not deterministic\n")
            return 2
    return 0


def main():
    rc = quick()
    print("selftest", "ok" if rc == 0 else "FAILED")
    return rc
