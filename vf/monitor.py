"""Independent bus monitors: decode every transport session on the bus with the reference codec
(C03) and check flow control / pacing on the time-stamped log (C09).  Written from the SAE
frame layouts; imports nothing from the library."""
from . import refcodec as R

EPS = 1e-4


class Sess:
    __slots__ = ('kind', 'o', 'r', 'sess', 'size', 'npk', 'limit', 'pgn', 'next', 'cleared', 'first_cts',
                 'data', 'last_dt_t', 'last_dt_dev', 't0', 'src', 'complete', 'prio', 'held', 'eoms')


class Monitor:
    """feed(frame) in bus order.  problems: list of (who, text) where who is the name of the node that
    sent the offending frame.  messages: decoded complete messages."""

    def __init__(self, dll, win_of=None, bam_interval=None, cmdt_interval=None, wake_slack=0.0):
        self.dll = dll
        self.fd = dll == 'j1939-22'
        self.win_of = win_of or {}           # address -> that stack's max_cmdt_packets
        self.bam_interval = bam_interval     # {src name: seconds} minimum BAM DT spacing
        self.cmdt_interval = cmdt_interval   # {src name: seconds or None}
        self.wake_slack = wake_slack
        self.open = {}
        self.problems = []
        self.messages = []
        self.acks = []
        self.aborts = []
        self.nframes = 0
        self.retx = False                    # follow the responder's view: frames lost on the bus are not seen, a CTS may
                                             # ask for packets again (retransmission)

    def bad(self, fr, text):
        self.problems.append((fr.src, text))

    # ------------------------------------------------------------------
    def feed(self, fr):
        if not fr.ext:
            return
        if self.retx and getattr(fr, 'lost', False):
            return
        self.nframes += 1
        if self.fd:
            if fr.pf == 0x4D:
                self.cm22(fr)
            elif fr.pf == 0x4E:
                self.dt22(fr)
        else:
            if fr.pf == 0xEC:
                self.cm21(fr)
            elif fr.pf == 0xEB:
                self.dt21(fr)

    def _open(self, key, fr, kind, o, r, sess, size, npk, limit, pgn):
        if key in self.open and not self.open[key].complete:
            # the library allows a new BAM to replace an unfinished one; for RTS it is the peer's business
            pass
        s = Sess()
        s.kind, s.o, s.r, s.sess, s.size, s.npk, s.limit, s.pgn = kind, o, r, sess, size, npk, limit, pgn
        s.next, s.cleared, s.first_cts, s.data, s.last_dt_t, s.t0, s.src = 1, 0, False, [], None, fr.t, fr.src
        s.complete, s.prio, s.held, s.eoms, s.last_dt_dev = False, fr.prio, False, False, None
        self.open[key] = s
        seg = 60 if self.fd else 7
        if npk != (size + seg - 1) // seg:
            self.bad(fr, "announced packet count %d does not match size %d" % (npk, size))
        if not self.fd and not (9 <= size <= 1785):
            self.bad(fr, "announced size %d outside 9..1785" % size)
        return s

    # ------------------------------------------------------------------ J1939-21
    def cm21(self, fr):
        d = R.tp21_decode_cm(fr.data)
        if 'bad' in d:
            self.bad(fr, d['bad'])
            return
        t = d['t']
        if t == 'RTS':
            if fr.ps == 255:
                self.bad(fr, "RTS to the global address")
            if d['limit'] == 0:
                self.bad(fr, "RTS with window limit 0")
            self._open((fr.sa, fr.ps), fr, 'cmdt', fr.sa, fr.ps, None, d['size'], d['npk'], d['limit'], d['pgn'])
        elif t == 'BAM':
            if fr.ps != 255:
                self.bad(fr, "BAM not sent to the global address")
            if d['resv'] != 0xFF:
                self.bad(fr, "BAM reserved byte is not 0xFF")
            self._open((fr.sa, 255), fr, 'bam', fr.sa, 255, None, d['size'], d['npk'], None, d['pgn'])
        elif t == 'CTS':
            s = self.open.get((fr.ps, fr.sa))
            if s is None or s.kind != 'cmdt':
                return                      # CTS for an unknown session: receiver's business (C07)
            if d['pgn'] != s.pgn:
                self.bad(fr, "CTS carries PGN %05X, session is for %05X" % (d['pgn'], s.pgn))
            if d['resv'] != b'\xff\xff':
                self.bad(fr, "CTS reserved bytes are not 0xFF")
            self.cts(fr, s, d['n'], d['next'], hold_next_ok=True)
        elif t == 'EOMA':
            s = self.open.get((fr.ps, fr.sa))
            if s is None:
                return
            if not s.complete:
                self.bad(fr, "EndOfMsgACK before all packets were sent")
            if (d['size'], d['npk'], d['pgn']) != (s.size, s.npk, s.pgn):
                self.bad(fr, "EndOfMsgACK fields (size %d, packets %d, PGN %05X) do not match the RTS (%d, %d, %05X)"
                         % (d['size'], d['npk'], d['pgn'], s.size, s.npk, s.pgn))
            if d['resv'] != 0xFF:
                self.bad(fr, "EndOfMsgACK reserved byte is not 0xFF")
            self.acks.append((fr.sa, fr.ps, s.pgn, fr.t))
            del self.open[(fr.ps, fr.sa)]
        elif t == 'ABORT':
            self.aborts.append((fr.src, fr.sa, fr.ps, d['reason'], fr.t))
            self.open.pop((fr.ps, fr.sa), None)
            k = (fr.sa, fr.ps)
            if k in self.open and self.open[k].kind == 'cmdt':
                del self.open[k]

    def cts(self, fr, s, n, nxt, hold_next_ok=False):
        remaining = s.npk - s.next + 1
        if n == 0:
            s.cleared = 0
            s.held = True
            return
        if s.cleared > 0 and not s.complete:
            # a CTS while packets of the previous window are outstanding: legal only as a restart; not produced
            # by a conforming responder in the envelope - flag it for the responder
            self.bad(fr, "CTS sent while %d cleared packets are still outstanding" % s.cleared)
        if nxt != s.next:
            if self.retx and 1 <= nxt < s.next and not s.complete:
                # retransmission request: the responder wants the packets from nxt on again
                seg = 60 if self.fd else 7
                s.next = nxt
                del s.data[(nxt - 1) * seg:]
                remaining = s.npk - s.next + 1
            else:
                self.bad(fr, "CTS asks for packet %d, next in order is %d" % (nxt, s.next))
        lim = s.limit if s.limit else 255
        if n > lim:
            self.bad(fr, "CTS grants %d packets, the RTS allows %d" % (n, lim))
        if n > remaining:
            self.bad(fr, "CTS grants %d packets, only %d remain" % (n, remaining))
        own = self.win_of.get(fr.sa)
        if own is not None and n > own:
            self.bad(fr, "CTS grants %d packets, the responder's configured maximum is %d" % (n, own))
        s.cleared = n
        s.first_cts = True
        s.held = False
        # reading of C09 (DESIGN.md): the configured minimum interval spaces the packets of one cleared
        # burst; a new CTS is the responder's explicit clearance and restarts the spacing
        s.last_dt_t = None

    def dt21(self, fr):
        s = self.open.get((fr.sa, fr.ps))
        if s is None:
            self.bad(fr, "data packet without an open session")
            return
        if len(fr.data) != 8:
            self.bad(fr, "TP.DT with %d bytes" % len(fr.data))
            return
        self.dt_common(fr, s, fr.data[0], fr.data[1:], 7)

    def dt_common(self, fr, s, seq, chunk, seg):
        if s.complete:
            self.bad(fr, "data packet after the last packet of the message")
            return
        if s.kind == 'cmdt':
            if not s.first_cts:
                self.bad(fr, "data packet before the first CTS")
            elif s.cleared <= 0:
                self.bad(fr, "data packet not cleared by a CTS (%s)" % ("after a hold" if s.held else "window exhausted"))
            s.cleared -= 1
            iv = (self.cmdt_interval or {}).get(fr.src)
            if iv and s.last_dt_t is not None and fr.t - s.last_dt_t < iv - EPS:
                self.bad(fr, "connection-mode packets %.1f ms apart, configured minimum %.1f ms" % ((fr.t - s.last_dt_t) * 1e3, iv * 1e3))
        else:
            iv = (self.bam_interval or {}).get(fr.src)
            if iv is not None:
                ref = s.last_dt_t if s.last_dt_t is not None else s.t0
                gap = fr.t - ref
                if gap < iv - EPS:
                    self.bad(fr, "broadcast packets %.2f ms apart, minimum interval %.1f ms" % (gap * 1e3, iv * 1e3))
                if gap > max(iv, 0.2) + self.wake_slack + 2e-3:
                    self.bad(fr, "broadcast packets %.1f ms apart (more than 200 ms) on an otherwise idle stack" % (gap * 1e3))
        s.last_dt_t = fr.t
        if seq != s.next:
            if self.retx and seq > s.next and s.kind == 'cmdt':
                return                      # a packet was lost before this one: the responder drops it and will ask again
            self.bad(fr, "sequence number %d, expected %d" % (seq, s.next))
        s.next += 1
        s.data.extend(chunk[:seg])
        if s.next > s.npk:
            s.complete = True
            want = s.size - seg * (s.npk - 1)
            pad = bytes(chunk[want:])
            if any(b != 0xFF for b in pad):
                self.bad(fr, "padding of the last packet is not 0xFF")
            if len(chunk) < want:
                self.bad(fr, "last packet carries %d bytes, %d needed" % (len(chunk), want))
            self.messages.append({'sa': s.o, 'da': s.r, 'pgn': s.pgn, 'data': bytes(s.data[:s.size]), 'kind': s.kind,
                                  't': fr.t, 'src': s.src, 'prio': s.prio, 'sess': s.sess})
            if s.kind == 'bam' and not self.fd:
                del self.open[(s.o, 255)]

    # ------------------------------------------------------------------ J1939-22
    def cm22(self, fr):
        if not R.fd_legal_len(len(fr.data)):
            self.bad(fr, "FD.TP.CM with illegal CAN FD length %d" % len(fr.data))
        d = R.tp22_decode_cm(fr.data)
        if 'bad' in d:
            self.bad(fr, d['bad'])
            return
        t = d['t']
        if t == 'RTS':
            if d['limit'] == 0:
                self.bad(fr, "RTS with window limit 0")
            if d['sess'] > 7:
                self.bad(fr, "RTS with session number %d (0..7 allowed)" % d['sess'])
            self._open((d['sess'], fr.sa, fr.ps), fr, 'cmdt', fr.sa, fr.ps, d['sess'], d['size'], d['nseg'], d['limit'], d['pgn'])
        elif t == 'BAM':
            if fr.ps != 255:
                self.bad(fr, "BAM not sent to the global address")
            if d['sess'] > 3:
                self.bad(fr, "BAM with session number %d (0..3 allowed)" % d['sess'])
            self._open((d['sess'], fr.sa, 255), fr, 'bam', fr.sa, 255, d['sess'], d['size'], d['nseg'], None, d['pgn'])
        elif t == 'CTS':
            s = self.open.get((d['sess'], fr.ps, fr.sa))
            if s is None or s.kind != 'cmdt':
                return
            if d['pgn'] != s.pgn:
                self.bad(fr, "CTS carries PGN %05X, session is for %05X" % (d['pgn'], s.pgn))
            self.cts(fr, s, d['n'], d['next'])
        elif t == 'EOMS':
            s = self.open.get((d['sess'], fr.sa, fr.ps))
            if s is None:
                self.bad(fr, "end-of-message status without an open session")
                return
            if not s.complete and not (self.retx and s.kind == 'cmdt'):
                self.bad(fr, "end-of-message status before all segments were sent")
            if (d['size'], d['nseg'], d['pgn']) != (s.size, s.npk, s.pgn):
                self.bad(fr, "end-of-message status fields do not match the announcement")
            s.eoms = True
            if s.kind == 'bam':
                iv = (self.bam_interval or {}).get(fr.src)
                del self.open[(d['sess'], fr.sa, fr.ps)]
        elif t == 'EOMA':
            s = self.open.get((d['sess'], fr.ps, fr.sa))
            if s is None:
                return
            if not s.eoms:
                self.bad(fr, "end-of-message acknowledge before the end-of-message status")
            if (d['size'], d['nseg'], d['pgn']) != (s.size, s.npk, s.pgn):
                self.bad(fr, "end-of-message acknowledge fields (size %d, segments %d, PGN %05X) do not match the RTS (%d, %d, %05X)"
                         % (d['size'], d['nseg'], d['pgn'], s.size, s.npk, s.pgn))
            self.acks.append((fr.sa, fr.ps, s.pgn, fr.t))
            del self.open[(d['sess'], fr.ps, fr.sa)]
        elif t == 'ABORT':
            self.aborts.append((fr.src, fr.sa, fr.ps, d['reason'], fr.t))
            self.open.pop((d['sess'], fr.ps, fr.sa), None)
            k = (d['sess'], fr.sa, fr.ps)
            if k in self.open and self.open[k].kind == 'cmdt':
                del self.open[k]

    def dt22(self, fr):
        if not R.fd_legal_len(len(fr.data)):
            self.bad(fr, "FD.TP.DT with illegal CAN FD length %d" % len(fr.data))
        if len(fr.data) < 5:
            self.bad(fr, "FD.TP.DT with %d bytes" % len(fr.data))
            return
        sess = fr.data[0] >> 4
        if fr.data[0] & 0xF:
            self.bad(fr, "FD.TP.DT format indicator %d" % (fr.data[0] & 0xF))
        seg = fr.data[1] | (fr.data[2] << 8) | (fr.data[3] << 16)
        s = self.open.get((sess, fr.sa, fr.ps))
        if s is None:
            self.bad(fr, "data segment without an open session")
            return
        self.dt_common(fr, s, seg, fr.data[4:], 60)

    def unfinished(self):
        return [s for s in self.open.values() if not s.complete]
