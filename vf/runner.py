"""Check runner: fans work items out over forked workers, aggregates coverage, matches
violations against known_findings.json, writes replay files and the evidence file."""
import os
import sys
import json
import time
import signal
import hashlib
import traceback
import re
import multiprocessing

VERIF = os.path.dirname(os.path.dirname(os.path.abspath(__file__)))
EVIDENCE_DIR = os.path.join(VERIF, 'evidence')
REPLAY_DIR = os.path.join(VERIF, 'replays')
FINDINGS = os.path.join(VERIF, 'known_findings.json')
ITEM_TIMEOUT = int(os.environ.get('VERIF_ITEM_TIMEOUT', '2400'))
NPROC = int(os.environ.get('VERIF_NPROC', '0')) or min(16, os.cpu_count() or 1)


def h64(x):
    return int.from_bytes(hashlib.blake2b(repr(x).encode(), digest_size=8).digest(), 'big')


class Acc:
    """what a worker returns for one work item"""

    def __init__(self):
        self.evals = 0
        self.nontrivial = set()     # hashes of distinct non-trivial cases
        self.outcomes = set()       # hashes of distinct observed outcomes
        self.violations = []        # dicts: sig, scenario, choices, detail
        self.samples = []
        self.states = 0
        self.transitions = 0
        self.extra = {}
        self.capped = False

    def case(self, key, nontrivial=True, outcome=None):
        self.evals += 1
        if nontrivial:
            self.nontrivial.add(h64(key))
        if outcome is not None:
            self.outcomes.add(h64(outcome))

    def violation(self, sig, scenario, choices=None, detail=None):
        if len(self.violations) < 200:
            self.violations.append({'sig': sig, 'scenario': scenario,
                                    'choices': [list(c) for c in (choices or [])],
                                    'detail': detail})
        else:
            self.extra['violations_dropped'] = self.extra.get('violations_dropped', 0) + 1

    def sample(self, s):
        if len(self.samples) < 2:
            self.samples.append(s)

    def add(self, k, n=1):
        self.extra[k] = self.extra.get(k, 0) + n


def _alarm(signum, frame):
    raise TimeoutError("work item exceeded %d s wall clock" % ITEM_TIMEOUT)


def lib_exception(e):
    """if the exception was raised inside the library under test (and is not a harness error), a short
    description 'Type at file:function'; else None.  An exception escaping a public API call in a scenario
    whose reference expects success is a violation of that scenario, not a harness failure."""
    from .rt import HarnessError
    if isinstance(e, (HarnessError, TimeoutError, KeyboardInterrupt, MemoryError)):
        return None
    repo = os.path.realpath(os.environ.get('J1939_VERIF_REPO', '/repo')) + os.sep
    tb = e.__traceback__
    where = None
    while tb is not None:
        fn = os.path.realpath(tb.tb_frame.f_code.co_filename)
        if fn.startswith(repo):
            where = "%s:%s" % (os.path.basename(fn), tb.tb_frame.f_code.co_name)
        tb = tb.tb_next
    if where is None:
        return None
    if type(e).__name__ == 'Runaway':
        return "no exception: the call never returns (busy loop, %s)" % where
    return "%s at %s" % (type(e).__name__, where)


def _call(args):
    fn, item = args
    signal.signal(signal.SIGALRM, _alarm)
    signal.alarm(ITEM_TIMEOUT)
    try:
        return ('ok', fn(item))
    except BaseException as e:
        d = lib_exception(e)
        if d is not None:
            a = Acc()
            a.evals = 1
            a.violation("the library raised %s out of a public call the scenario expects to succeed" % d,
                        {'work_item': repr(item)[:2000]}, None, traceback.format_exc()[-1500:])
            return ('ok', a)
        return ('err', "item %r\n%s" % (item, traceback.format_exc()))
    finally:
        signal.alarm(0)


def load_findings():
    try:
        with open(FINDINGS) as f:
            return json.load(f)
    except FileNotFoundError:
        return {'known': [], 'fixed': []}


def merge(total, r, nontrivial, outcomes):
    total.evals += r.evals
    nontrivial |= r.nontrivial
    outcomes |= r.outcomes
    total.violations.extend(r.violations)
    total.states += r.states
    total.transitions += r.transitions
    total.capped = total.capped or r.capped
    for s in r.samples:
        if len(total.samples) < 6:
            total.samples.append(s)
    for k, v in r.extra.items():
        if isinstance(v, (int, float)) and not isinstance(v, bool):
            total.extra[k] = total.extra.get(k, 0) + v
        else:
            total.extra.setdefault(k, v)


def make_pool(n=None):
    ctx = multiprocessing.get_context('fork')
    return ctx.Pool(n or NPROC)


def pmap(pool, fn, items, chunksize=1):
    """unordered parallel map with per-item wall-clock guard; raises on a failed item"""
    if pool is None:
        it = map(_call, [(fn, x) for x in items])
    else:
        it = pool.imap_unordered(_call, [(fn, x) for x in items], chunksize=chunksize)
    for status, r in it:
        if status == 'err':
            raise RuntimeError(r)
        yield r


def run_check(prop, tier, seed, level, items, worker, rule, assumptions, technique_note='',
              exhaustive=True, bounds=None, mc=False, serial=False):
    """items: list of picklable work items; worker(item) -> Acc.  Returns the exit code."""
    t0 = time.time()
    total = Acc()
    errors = []
    items = list(items)
    if serial or NPROC == 1 or len(items) <= 1:
        results = map(_call, [(worker, it) for it in items])
        pool = None
    else:
        pool = make_pool(min(NPROC, len(items)))
        results = pool.imap_unordered(_call, [(worker, it) for it in items], chunksize=1)
    nontrivial = set()
    outcomes = set()
    for status, r in results:
        if status == 'err':
            errors.append(r)
            continue
        merge(total, r, nontrivial, outcomes)
    if pool is not None:
        pool.close()
        pool.join()

    if errors:
        sys.stdout.write("HARNESS-ERROR property=%s (%d work items failed)\n%s\n" % (prop, len(errors), errors[0]))
        return 2
    return report(prop, tier, seed, level, total, nontrivial, outcomes, rule, assumptions, t0,
                  exhaustive=exhaustive, bounds=bounds, mc=mc, nitems=len(items))


def report(prop, tier, seed, level, total, nontrivial, outcomes, rule, assumptions, t0,
           exhaustive=True, bounds=None, mc=False, nitems=0):
    # ---- classify violations
    fnd = load_findings()
    known = [k for k in fnd.get('known', []) if k.get('property') == prop]
    total.violations.sort(key=lambda v: (len([c for c in v['choices'] if c[1]]), json.dumps(v['scenario'], sort_keys=True, default=str)))
    new = []
    matched = {}
    for v in total.violations:
        hit = None
        for k in known:
            if v['sig'].startswith(k['match']):
                hit = k
                break
        if hit is not None:
            matched.setdefault(hit['match'], [hit, 0, v])
            matched[hit['match']][1] += 1
        else:
            new.append(v)
    for m, (k, n, v) in sorted(matched.items()):
        sys.stdout.write("KNOWN-FINDING: property=%s %s (%d executions; e.g. %s)\n" % (prop, k['what'], n, v['sig']))
    os.makedirs(os.path.join(REPLAY_DIR, prop), exist_ok=True)
    per_sig = {}
    written = 0
    for v in new:
        cls = re.sub(r'\d+(\.\d+)?', 'N', v['sig'])
        per_sig[cls] = per_sig.get(cls, 0) + 1
        if per_sig[cls] > 2 or written >= 25:
            continue
        body = {'property': prop, 'sig': v['sig'], 'scenario': v['scenario'], 'choices': v['choices'],
                'detail': v['detail'], 'seed': seed}
        dig = hashlib.blake2b(json.dumps(body, sort_keys=True, default=str).encode(), digest_size=6).hexdigest()
        path = os.path.join(REPLAY_DIR, prop, dig + '.json')
        with open(path, 'w') as f:
            json.dump(body, f, indent=1, default=str)
        written += 1
        sys.stdout.write("VIOLATION property=%s replay=%s\n" % (prop, path))
        sys.stdout.write("  what: %s\n" % v['sig'])
    if len(per_sig) and sum(per_sig.values()) > written:
        sys.stdout.write("  (%d violating executions in %d classes; %d replay files written)\n"
                         % (sum(per_sig.values()), len(per_sig), written))

    # ---- evidence
    wall = time.time() - t0
    cov = {
        'evaluations': total.evals,
        'distinct_nontrivial': len(nontrivial),
        'distinct_outcomes': len(outcomes),
        'rule': rule,
        'samples': total.samples or [{'note': 'no sample recorded'}],
        'exhaustive': bool(exhaustive and not total.capped),
        'work_items': nitems,
    }
    if bounds:
        cov['bounds'] = bounds
    if mc:
        cov['states'] = total.states
        cov['transitions'] = total.transitions
        cov['traces_validated_against_impl'] = total.transitions
        cov['explanation'] = ('every transition is an execution of the implementation itself '
                              '(explicit-state search over the real objects); there is no separate model')
    if total.capped:
        cov['cap_hit'] = True
    for k, v in sorted(total.extra.items()):
        cov[k] = v
    ev = {
        'property_id': prop, 'tier': tier, 'seed': seed, 'level': level, 'coverage': cov,
        'assumptions': list(assumptions), 'wall_s': round(wall, 2),
        'violations': len(new), 'known_findings_matched': sum(n for (_k, n, _v) in matched.values()),
    }
    os.makedirs(EVIDENCE_DIR, exist_ok=True)
    with open(os.path.join(EVIDENCE_DIR, prop + '.json'), 'w') as f:
        json.dump(ev, f, indent=1, default=str)
        f.write('\n')
    sys.stdout.write("%s %s: evaluations=%d distinct_nontrivial=%d outcomes=%d%s violations=%d known=%d wall=%.1fs\n" % (
        prop, tier, total.evals, len(nontrivial), len(outcomes),
        (' states=%d transitions=%d' % (total.states, total.transitions)) if mc else '',
        len(new), ev['known_findings_matched'], wall))
    return 1 if new else 0
