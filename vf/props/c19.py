"""C19 - a second DM14 requester never disturbs or joins a running transaction.
Fault enumeration: an intruding DM14 injected after every bus frame of every transaction shape,
once and twice; differential oracle against the intruder-free run.  DESIGN.md section 4 / C19."""
from ..runner import Acc, run_check
from ..dm14 import DmWorld, SRV, CLI, INTR
from . import c17

PROP = 'C19'
OTHER_PTR = 0x00777000


def dm14_frame(sa, address, count=1, cmd=1):
    can_id = (6 << 26) | (0xD9 << 16) | (SRV << 8) | sa
    data = [count, (1 << 4) + (cmd << 1) + 1] + list(address.to_bytes(4, 'little')) + [0x07, 0x00]
    return (can_id, bytes(data), False)


def run_shape(sc, inject=None, keep=False):
    d = DmWorld(sc['cfg'])
    try:
        if inject:
            for (k, fr) in inject:
                d.bus.inject.setdefault(k, []).append(fr)
        d.run(sc['ops'])
        return {
            'nframes': len(d.bus.log),
            'frames': [(f.src, f.can_id, f.data, f.injected) for f in d.bus.log],
            'result': [(r.get('ret'), r.get('exc')) for r in d.results],
            'served': list(d.served) + [('own query',) + tuple(q) for q in d.own_queries],
            'proceed': [c[1] for c in d.proceed_calls],
            'notifies': d.notifies,
            'cli': d.cli_addr,
            'states': d.snapshot_states(),
            'idle': d.idle_ref,
            'dead': d.dead(),
            'trace': d.trace() if keep else None,
        }
    finally:
        d.close()


def judge(base, run, variant, op):
    probs = []
    same_sa = variant.startswith('same_sa')
    CLI = run['cli']
    intr_sa = CLI if same_sa else INTR
    # never handed to the application
    for a in run['proceed']:
        cmd, address, sa = a[0], a[1], a[6]
        if sa != CLI or address != op['address']:
            probs.append("the intruding request (source %02X, pointer %08X) was passed to the serving application" % (sa, address))
    if len(run['proceed']) > len(base['proceed']) and not probs:
        probs.append("the serving application was consulted %d times for one transaction" % len(run['proceed']))
    if run['notifies'] > base['notifies']:
        probs.append("the serving application was notified %d times for one transaction" % run['notifies'])
    # answers to the intruder: only DM15 failed / busy, addressed to it
    if not same_sa:
        for (src, can_id, data, inj) in run['frames']:
            if src != 'S':
                continue
            ps = (can_id >> 8) & 0xFF
            pf = (can_id >> 16) & 0xFF
            if ps == INTR:
                status = (data[1] >> 1) & 7 if len(data) > 1 else None
                if pf != 0xD8 or status not in (1, 5):
                    probs.append("the server answered the intruder with something else than a DM15 busy / operation failed (pf %02X)" % pf)
        legit = [(s, c, dt) for (s, c, dt, inj) in run['frames'] if not inj and ((c >> 8) & 0xFF) != INTR and (c & 0xFF) != INTR]
        if legit != [(s, c, dt) for (s, c, dt, inj) in base['frames']]:
            probs.append("the frames of the running transaction differ from the intruder-free run")
        if run['result'] != base['result']:
            probs.append("the running transaction's result changed: %r instead of %r" % (_b(run['result']), _b(base['result'])))
        if run['served'] != base['served']:
            probs.append("the serving application saw different data / requests than in the intruder-free run")
        if run['states'] != run['idle']:
            bad = [k for k in run['states'] if run['states'][k] != run['idle'][k]]
            probs.append("not idle after the transaction: %s in state %s" % (bad[0], run['states'][bad[0]]))
    else:
        # same requester, other pointer: must not be served in place of the running request
        for s in run['served']:
            if s[0] in ('read', 'write') and s[2] != op['address']:
                probs.append("a request for another memory address was served in place of the running one")
    probs += run['dead']
    return probs


def _b(res):
    return [(('%d items' % len(r)) if isinstance(r, list) else r, e and e[1][:50]) for (r, e) in res]


def worker(item):
    sc, seed = item[0], item[1]
    acc = Acc()
    op = sc['ops'][0]
    base = run_shape(sc)
    if base['result'][0][1] is not None or base['states'] != base['idle']:
        acc.violation("HARNESS: the intruder-free transaction does not succeed", sc, None, [repr(_b(base['result']))])
        return acc
    n = base['nframes']
    cli = sc['cfg'].get('cli', CLI)
    variants = {
        'other_sa_same_ptr': dm14_frame(INTR, op['address'], op.get('count', 1)),
        'other_sa_other_ptr': dm14_frame(INTR, OTHER_PTR, 2),
        'other_sa_write': dm14_frame(INTR, op['address'], 1, cmd=2),
        'same_sa_other_ptr': dm14_frame(cli, OTHER_PTR, 1),
    }
    for vname, fr in variants.items():
        for k in range(0, n - 1):
            for twice in (None, 'same', 'next'):
                if twice == 'next' and k + 1 >= n - 1:
                    continue
                inj = [(k, fr)]
                if twice == 'same':
                    inj.append((k, fr))
                elif twice == 'next':
                    inj.append((k + 1, fr))
                run = run_shape(sc, inj)
                probs = judge(base, run, vname, op)
                acc.case((repr(sc), vname, k, twice), outcome=(tuple(run['frames']), repr(run['result'])))
                if probs:
                    acc.violation(csig(probs), dict(sc, intruder={'variant': vname, 'after_frame': k, 'twice': twice}), None, probs[:3])
    if len(item) > 2 and item[2]:
        # thorough: two different intruders at every ordered pair of injection points
        names = list(variants)
        for v1 in names:
            for v2 in names:
                if v1 == v2:
                    continue
                for k1 in range(0, n - 1):
                    for k2 in range(k1, n - 1):
                        run = run_shape(sc, [(k1, variants[v1]), (k2, variants[v2])])
                        worst = 'same_sa_other_ptr' if 'same_sa_other_ptr' in (v1, v2) else v1
                        probs = judge(base, run, worst, op)
                        acc.case((repr(sc), v1, v2, k1, k2), outcome=(tuple(run['frames']), repr(run['result'])))
                        if probs:
                            acc.violation(csig(probs), dict(sc, intruder={'variant': v1, 'after_frame': k1, 'second': [v2, k2]}), None, probs[:3])
    acc.add('window_frames', n - 1)
    acc.sample({'scenario': sc, 'frames_in_transaction': n, 'intruder': 'other_sa_same_ptr after frame 2'})
    return acc


def csig(probs):
    import re
    p = probs[0]
    p = re.sub(r'\(source [0-9A-F]+, pointer [0-9A-F]+\)', '', p)
    p = re.sub(r"result changed: .*", 'result changed', p)
    p = re.sub(r'\d+ times', 'N times', p)
    return p[:130]


def scenarios(tier):
    out = []
    lens = (1, 9) if tier == 'quick' else (1, 2, 7, 8, 9, 14, 15, 16, 30, 100)
    for sd in (None, 0xA55A):
        for n in lens:
            out.append({'cfg': {'seed': sd}, 'ops': [c17.rd(0x1000, n)]})
            out.append({'cfg': {'seed': sd}, 'ops': [c17.wr(0x1000, n)]})
        # the running requester sits on source address 0x00 (engine #1: a legal, falsy address)
        for n in (1, 9):
            out.append({'cfg': {'seed': sd, 'cli': 0x00}, 'ops': [c17.rd(0x1000, n)]})
            out.append({'cfg': {'seed': sd, 'cli': 0x00}, 'ops': [c17.wr(0x1000, n)]})
        # the serving ECU is itself a client of a third ECU right after respond() (its facade is then in its querying state
        # while the inbound transaction is still closing)
        for n in ((4, 30) if tier == 'quick' else (1, 4, 9, 30)):
            out.append({'cfg': {'seed': sd, 'third': True}, 'ops': [dict(c17.rd(0x1000, n), then_query=1)]})
        # every party on a thread of its own, blocking driver (see C17)
        for cost in (0.3e-3, 3e-3):
            for vis in (0.0, 1.0):
                cfg = {'seed': sd, 'base_lat': 0.2e-3, 'send_cost': cost, 'send_visible': vis, 'rx_threads': True}
                out.append({'cfg': cfg, 'ops': [c17.rd(0x1000, 9)]})
                out.append({'cfg': cfg, 'ops': [c17.wr(0x1000, 1)]})
        if tier != 'quick':
            for base in (0.2e-3, 5e-3):
                out.append({'cfg': {'seed': sd, 'base_lat': base}, 'ops': [c17.rd(0x1000, 9)]})
                out.append({'cfg': {'seed': sd, 'base_lat': base}, 'ops': [c17.wr(0x1000, 9)]})
    return out


RULE = ("for every transaction shape (read / write x single-frame / multi-packet data x seed/key off / on; thorough: more lengths and "
        "latencies) the intruder-free run numbers the bus frames of the transaction window; then an intruding DM14 (other source same "
        "pointer, other source other pointer, other source write, same source other pointer) is injected after every frame of the window, "
        "once, twice at the same point and at two consecutive points; differential oracle against the intruder-free run; all non-trivial")
ASSUME = ["the window ends when the closing operation-completed DM14 is on the bus (injection points 0..n-2)",
          "for the same-source variant only 'not handed to the application / not served in place' is required"]


def run(tier, seed):
    items = [(sc, seed, tier != 'quick') for sc in scenarios(tier)]
    return run_check(PROP, tier, seed, 'fault_enumeration', items, worker, RULE, ASSUME,
                     bounds={'injection_points': 'after every frame of the transaction window', 'injections_per_run': '1..2'})


def replay(rec):
    sc = dict(rec['scenario'])
    intr = sc.pop('intruder')
    op = sc['ops'][0]
    base = run_shape(sc)
    variants = {
        'other_sa_same_ptr': dm14_frame(INTR, op['address'], op.get('count', 1)),
        'other_sa_other_ptr': dm14_frame(INTR, OTHER_PTR, 2),
        'other_sa_write': dm14_frame(INTR, op['address'], 1, cmd=2),
        'same_sa_other_ptr': dm14_frame(sc['cfg'].get('cli', CLI), OTHER_PTR, 1),
    }
    fr = variants[intr['variant']]
    inj = [(intr['after_frame'], fr)]
    if intr.get('second'):
        inj.append((intr['second'][1], variants[intr['second'][0]]))
    if intr.get('twice') == 'same':
        inj.append((intr['after_frame'], fr))
    elif intr.get('twice') == 'next':
        inj.append((intr['after_frame'] + 1, fr))
    run = run_shape(sc, inj, keep=True)
    print("\n".join(run['trace']))
    probs = judge(base, run, intr['variant'], op)
    if probs:
        print("REPRODUCED: " + "; ".join(probs[:4]))
        print("VIOLATION property=%s replay=(this file)" % PROP)
        return 1
    print("no violation on this tree")
    return 0
