#!/bin/bash
# usage: tools/mutrun.sh <patch.diff> <PROP> [<PROP>...]   applies the patch to /repo, runs the quick checks, reverts
set -u
P=$1; shift
cd /repo || exit 9
if [ -n "$(git status --porcelain --untracked-files=no)" ]; then echo "REPO DIRTY"; exit 9; fi
if ! git apply "$P" 2>/dev/null; then
  if ! patch -p1 -s --no-backup-if-mismatch < "$P"; then echo "PATCH DOES NOT APPLY"; git checkout -- .; exit 8; fi
fi
cd /verif
for prop in "$@"; do
  out=$(timeout 1200 ./check "$prop" --tier ${TIER:-quick} 2>&1); rc=$?
  echo "== $prop rc=$rc"; echo "$out" | grep -E "VIOLATION|what:|KNOWN|HARNESS|wall=" | head -${LINES_MAX:-6}
done
git -C /repo checkout -- .
