"""Model-checking harness for python-can-j1939 (see /verif/DESIGN.md)."""
