#!/bin/bash
# usage: tools/mutrun.sh <patch.diff> <PROP> [<PROP>...]
# applies the patch to a scratch worktree of /repo's HEAD (outside /repo and /verif), runs the quick checks against
# it (J1939_VERIF_REPO), removes the worktree.  INPLACE=1: apply to /repo itself instead and revert afterwards.
set -u
P=$(readlink -f "$1"); shift
if [ "${INPLACE:-0}" = 1 ]; then
  cd /repo || exit 9
  if [ -n "$(git status --porcelain --untracked-files=no)" ]; then echo "REPO DIRTY"; exit 9; fi
  if ! git apply "$P" 2>/dev/null; then patch -p1 -s --no-backup-if-mismatch < "$P" || { echo "PATCH DOES NOT APPLY"; git checkout -- .; exit 8; }; fi
  WT=/repo
else
  WT=/tmp/mr_$$_$RANDOM
  git -C /repo worktree add -q --detach $WT HEAD || exit 9
  cd $WT
  if ! git apply "$P" 2>/dev/null; then patch -p1 -s --no-backup-if-mismatch < "$P" || { echo "PATCH DOES NOT APPLY"; cd /; git -C /repo worktree remove --force $WT; exit 8; }; fi
fi
cd /verif
for prop in "$@"; do
  out=$(J1939_VERIF_REPO=$WT timeout 1500 ./check "$prop" --tier ${TIER:-quick} 2>&1); rc=$?
  echo "== $prop rc=$rc"; echo "$out" | grep -E "VIOLATION|what:|KNOWN|HARNESS|wall=" | head -${LINES_MAX:-5}
done
if [ "${INPLACE:-0}" = 1 ]; then git -C /repo checkout -- .; else cd /; git -C /repo worktree remove --force $WT; fi
