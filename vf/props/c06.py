"""C06 - lost frames or a vanished peer end a transfer cleanly.  DESIGN.md section 4 / C06.
fault enumeration: every lost frame k, silence of either peer from every k, then a follow-up."""
from .. import rt
from ..explore import explore, trim
from ..runner import Acc, run_check
from ..scen import Driver, sig_of, npackets, TP_LIMIT
from .c01 import msg

PROP = 'C06'
SLACK = 0.030          # clean-up grace on top of the standard's timeout and the chosen latencies
STEP = 0.010


def two(wa, wb):
    return [{'name': 'A', 'cas': [0x10], 'win': wa}, {'name': 'B', 'cas': [0x20], 'win': wb}]


def is_abort(dll, fr, frm, to):
    if fr.sa != frm or fr.ps != to:
        return False
    if dll == 'j1939-21':
        return fr.pf == 0xEC and len(fr.data) == 8 and fr.data[0] == 255
    return fr.pf == 0x4D and len(fr.data) >= 12 and (fr.data[0] & 0xF) == 15


def is_eoma(dll, fr):
    if dll == 'j1939-21':
        return fr.pf == 0xEC and len(fr.data) == 8 and fr.data[0] == 19
    return fr.pf == 0x4D and len(fr.data) >= 12 and (fr.data[0] & 0xF) == 3


def is_eoms(dll, fr):
    return dll == 'j1939-22' and fr.pf == 0x4D and len(fr.data) >= 12 and (fr.data[0] & 0xF) == 2 and fr.ps != 255


def run_one(sc, prefix=(), seed=0, keep=False):
    """phase 1: the faulty transfer, polled every 10 ms for each side's give-up time;
    phase 2: a fresh transfer on the same pair."""
    d = Driver(sc, prefix, seed)
    net = d.net
    dll = net.dll
    w = net.w
    m = sc['msgs'][0]
    p2p = m['kind'] == 'p2p'
    probs = []
    try:
        net.submit(m, seed)
        slack = SLACK + 2 * max(sc.get('lat_grid') or [sc.get('base_lat', 1e-3)]) + 2 * max(sc.get('wake_grid') or [0]) \
            + 2 * sc.get('send_cost', 0.0)
        end = w.now + 4.6 + npackets(dll, m['size']) * (0.012 if not p2p else 0.001) * 5
        gave_up = {}
        late = {}
        seen_rx = {st.name: [0, None] for st in net.stacks}      # [rx_log entries consumed, time of the last non-abort frame received]

        def last_progress_rx(st):
            # a received connection abort ends a session, it does not prolong it: the clock keeps running from the last other frame
            ent = seen_rx[st.name]
            for (t, idx) in st.rx_log[ent[0]:]:
                f = net.bus.log[idx]
                if not is_abort(dll, f, f.sa, f.ps):
                    ent[1] = t
            ent[0] = len(st.rx_log)
            return ent[1]
        while w.now < end:
            w.run_for(STEP)
            if all(net.is_idle(st) for st in net.stacks) and not w.events:
                # everything given up and nothing in flight: nothing can open a session any more before the follow-up
                for st in net.stacks:
                    gave_up.setdefault(st.name, w.now)
                w.run(end)
                break
            for st in net.stacks:
                idle = net.is_idle(st)
                if idle:
                    gave_up.setdefault(st.name, w.now)
                    continue
                gave_up.pop(st.name, None)
                last = max(x for x in (last_progress_rx(st), st.last_tx_t, rt.T0) if x is not None)
                sent = [f for f in net.bus.log if f.src == st.name]
                sup = st.suppressed
                last_sent_is_eoms = False
                if sent and (not sup or sent[-1].t > sup[-1][0]):
                    last_sent_is_eoms = is_eoms(dll, sent[-1])
                elif sup:
                    last_sent_is_eoms = dll == 'j1939-22' and len(sup[-1][2]) >= 12 and (sup[-1][2][0] & 0xF) == 2
                limit = 3.0 if last_sent_is_eoms else 1.25
                if w.now > last + limit + slack and st.name not in late:
                    late[st.name] = (w.now - last, limit)
        for name, (dt, limit) in sorted(late.items()):
            probs.append("%s still holds session state %.2f s after its last frame (limit %.2f s)" % (name, dt, limit))
        # (1) exact payload once, or nothing
        jd = net.judge_deliveries()
        if jd:
            # "nothing" is legal under a fault: only unexpected / corrupt deliveries count
            bad = [p for p in jd if 'unexpected []' not in p]
            if bad:
                probs.append("receiver got a payload that is not the one sent: " + bad[0])
        # (3) abort to the peer when giving up a connection-mode wait
        if p2p and m['size'] > TP_LIMIT[dll]:
            A, B = net.stacks[0], net.stacks[1]
            a_addr, b_addr = m['src'], m['dst']
            allf = [(f.t, f) for f in net.bus.log]
            def delivered_to(st, pred):
                got = set(i for (_t, i) in st.rx_log)
                return any(pred(f) and f.idx in got for f in net.bus.log)
            def sent_abort(st, frm, to):
                if any(is_abort(dll, f, frm, to) for f in net.bus.log if f.src == st.name):
                    return True
                for (_t, can_id, data) in st.suppressed:
                    f = type('F', (), {})()
                    f.sa = can_id & 0xFF; f.ps = (can_id >> 8) & 0xFF; f.pf = (can_id >> 16) & 0xFF; f.data = data
                    if is_abort(dll, f, frm, to):
                        return True
                return False
            # originator
            a_done = delivered_to(A, lambda f: is_eoma(dll, f) and f.src == 'B')
            a_peer_abort = delivered_to(A, lambda f: is_abort(dll, f, b_addr, a_addr))
            a_sent = [f for f in net.bus.log if f.src == 'A'] 
            a_last_eoms = bool(a_sent) and is_eoms(dll, a_sent[-1]) if not A.suppressed else \
                (len(A.suppressed[-1][2]) >= 12 and (A.suppressed[-1][2][0] & 0xF) == 2 and dll == 'j1939-22')
            a_waited_eoma = dll == 'j1939-22' and (any(is_eoms(dll, f) for f in a_sent) or any(
                len(x[2]) >= 12 and (x[2][0] & 0xF) == 2 for x in A.suppressed))
            if not a_done and not a_peer_abort and not a_waited_eoma and not sent_abort(A, a_addr, b_addr):
                probs.append("originator gave up waiting for CTS without sending a connection abort")
            # responder: only if it ever opened the session (got the RTS)
            b_got_rts = delivered_to(B, lambda f: f.src == 'A' and f.idx == 0)
            b_done = any(is_eoma(dll, f) for f in net.bus.log if f.src == 'B') or any(
                (dll == 'j1939-21' and len(x[2]) == 8 and x[2][0] == 19) or
                (dll == 'j1939-22' and len(x[2]) >= 12 and (x[2][0] & 0xF) == 3) for x in B.suppressed)
            b_peer_abort = delivered_to(B, lambda f: is_abort(dll, f, a_addr, b_addr))
            if b_got_rts and not b_done and not b_peer_abort and not sent_abort(B, b_addr, a_addr):
                probs.append("responder gave up waiting for data without sending a connection abort")
        probs += net.job_problems()
        if not all(net.is_idle(st) for st in net.stacks):
            probs += net.idle_problems()
        # phase 2: follow-up on the same pair (faults over, silenced nodes back)
        for st in net.stacks:
            st.silent_from = None
        net.bus.drop = set()
        n0 = len(net.rec.items)
        sent0 = len(net.sent)
        m2 = dict(m)
        m2['pat'] = (m.get('pat', 0) + 1) % 3
        m2['size'] = m['size'] + 1 if m['size'] % 7 else m['size']
        r = net.submit(m2, seed + 1)
        w.run_for(1.0 + npackets(dll, m2['size']) * (0.06 if not p2p else 0.005) + (3.2 if dll == 'j1939-22' else 1.4))
        if r is not True:
            probs.append("follow-up transfer on the same address pair refused (send_pgn returned %r)" % (r,))
        else:
            first = net.sent[:sent0]
            items0 = net.rec.items[:n0]
            net.sent = net.sent[sent0:]
            net.rec.items = net.rec.items[n0:]
            jd = net.judge_deliveries()
            if jd:
                probs.append("follow-up transfer not delivered intact: " + jd[0])
            net.sent = first + net.sent
            net.rec.items = items0 + net.rec.items
        probs += [p for p in net.job_problems() if p not in probs]
        if not all(net.is_idle(st) for st in net.stacks):
            probs += ["after follow-up: " + p for p in net.idle_problems()]
        return net.chooser.points, probs, (net.outcome(), sorted(gave_up)), net.trace() if keep else None
    finally:
        net.close()


def csig(probs):
    p = probs[0]
    if p.startswith('receiver got a payload'):
        return 'receiver got a payload that is not the one sent'
    if 'still holds session state' in p:
        return p.split(' still holds')[0] + ' holds session state beyond the timeout'
    if p.startswith('follow-up transfer not delivered'):
        return 'follow-up transfer not delivered intact'
    return sig_of(probs)


def baseline_frames(sc, seed):
    sc0 = dict(sc)
    sc0.pop('drop', None)
    sc0.pop('silent', None)
    d = Driver(sc0, (), seed)
    try:
        d.net.submit(sc0['msgs'][0], seed)
        d.net.w.run_for(4.0)
        return len(d.net.bus.log)
    finally:
        d.net.close()


def early_one(sc, seed=0, keep=False):
    """broadcasts only: one frame of the first transfer is lost; the originator - which has nothing to wait for - starts the
    next broadcast 'early' seconds after it finished the first one, i.e. possibly before the receivers have given the damaged
    session up: the new transfer is accepted and delivered intact, the damaged one is delivered exactly or not at all"""
    d = Driver(sc, (), seed)
    net = d.net
    dll = net.dll
    w = net.w
    m = sc['msgs'][0]
    probs = []
    try:
        net.submit(m, seed)
        A = net.stacks[0]
        t_end = w.now + 3.0
        while w.now < t_end and not net.is_idle(A):
            w.run_for(STEP)
        w.run_for(sc['early'])
        net.bus.drop = set()
        m2 = dict(m)
        m2['pat'] = (m.get('pat', 0) + 1) % 3
        m2['size'] = m['size'] + 1 if m['size'] % 7 else m['size']
        n0 = len(net.rec.items)
        sent0 = len(net.sent)
        r = net.submit(m2, seed + 1)
        w.run_for(1.5 + npackets(dll, m2['size']) * 0.06 + (3.2 if dll == 'j1939-22' else 1.4))
        if r is not True:
            probs.append("follow-up broadcast refused (send_pgn returned %r) although the originator had finished the first one" % (r,))
        else:
            jd = net.judge_deliveries()
            bad = [p for p in jd if 'unexpected []' not in p]
            if bad:
                probs.append("receiver got a payload that is not one of those sent: " + bad[0])
            first, items0 = net.sent[:sent0], net.rec.items[:n0]
            net.sent, net.rec.items = net.sent[sent0:], net.rec.items[n0:]
            jd = net.judge_deliveries()
            if jd:
                probs.append("follow-up broadcast %.1f s after the damaged one not delivered intact: %s" % (sc['early'], jd[0]))
            net.sent, net.rec.items = first + net.sent, items0 + net.rec.items
        probs += net.job_problems()
        if not all(net.is_idle(st) for st in net.stacks):
            probs += net.idle_problems()
        return net.chooser.points, probs, (net.outcome(), ()), net.trace() if keep else None
    finally:
        net.close()

def mixed_one(sc, seed=0, keep=False):
    """one stack E is responder of a transfer whose originator Q vanishes (after its RTS / after its first data packet) and at
    the same time originator of a transfer whose responder P vanishes after its CTS: each session is given up within its own
    time-out (the receive session is not kept until the longer time-out of the send session has run out)"""
    from ..scen import Net
    dll = sc['dll']
    seg = 7 if dll == 'j1939-21' else 60
    nsc = {'dll': dll, 'base_lat': 1e-3, 'stacks': [{'name': 'E', 'cas': [0x10], 'win': 255}, {'name': 'P', 'cas': [0x20], 'win': 255},
                                                     {'name': 'Q', 'cas': [0x30], 'win': 1}]}
    net = Net(nsc)
    try:
        w, bus = net.w, net.bus
        E, P, Q = net.stacks
        cmpf = 0xEC if dll == 'j1939-21' else 0x4D
        qn = {'n': 0}

        def tap(fr):
            if fr.src == 'Q':
                qn['n'] += 1
                if qn['n'] == sc['q_frames'] and Q.silent_from is None:
                    Q.silent_from = fr.idx + 1          # Q has sent q_frames frames and is gone
            if fr.src == 'P' and fr.pf == cmpf and P.silent_from is None:
                P.silent_from = fr.idx + 1              # P has sent its clear-to-send and is gone
        bus.taps.append(tap)
        t0 = w.now
        first, second = (('Q', 'E') if sc['order'] == 'in_first' else ('E', 'Q'))
        for who in (first, second):
            if who == 'Q':
                net.submit({'src': 0x30, 'kind': 'p2p', 'dst': 0x10, 'size': seg * 3 - 1, 'pat': 1}, seed)
            else:
                net.submit({'src': 0x10, 'kind': 'p2p', 'dst': 0x20, 'size': seg * sc['out_packets'] - 2, 'pat': 2}, seed + 1)
            w.run_for(sc['gap'])
        dl = E.ecu.j1939_dll
        t_rcv = t_snd = None
        seen_rcv = seen_snd = False
        end = w.now + 5.0
        while w.now < end:
            w.run_for(STEP)
            seen_rcv = seen_rcv or bool(dl._rcv_buffer)
            seen_snd = seen_snd or bool(dl._snd_buffer)
            if t_rcv is None and seen_rcv and not dl._rcv_buffer:
                t_rcv = w.now
            if t_snd is None and seen_snd and not dl._snd_buffer:
                t_snd = w.now
        probs = []
        if not (seen_rcv and seen_snd):
            probs.append("HARNESS: the two sessions of E were not both open (receive: %s, send: %s)" % (seen_rcv, seen_snd))
        last_q = max([t for (t, idx) in E.rx_log if bus.log[idx].src == 'Q'] or [t0])
        last_e = max([f.t for f in bus.log if f.src == 'E' and f.ps == 0x20 and not is_abort(dll, f, 0x10, 0x20)] or [t0])
        lim_r = 1.25 + SLACK + STEP + 2e-3
        lim_s = (3.0 if dll == 'j1939-22' else 1.25) + SLACK + STEP + 2e-3
        if t_rcv is None:
            probs.append("E still holds the receive session of the vanished originator %.2f s after its last frame" % (w.now - last_q))
        elif t_rcv - last_q > lim_r:
            probs.append("E gave the receive session of the vanished originator up %.2f s after its last frame (time-out 1.25 s) while a send session of its own was waiting" % (t_rcv - last_q))
        if t_snd is None:
            probs.append("E still holds the send session towards the vanished responder %.2f s after its last frame" % (w.now - last_e))
        elif t_snd - last_e > lim_s:
            probs.append("E gave the send session towards the vanished responder up %.2f s after its last frame" % (t_snd - last_e))
        if not any(is_abort(dll, f, 0x10, 0x30) for f in bus.log):
            probs.append("E sent no connection abort to the vanished originator")
        probs += net.job_problems()
        outcome = [(f.src, f.can_id, f.data) for f in bus.log]
        return [], probs, outcome, net.trace() if keep else None
    finally:
        net.close()


def mixed_worker(item):
    _k, dll, seed = item
    acc = Acc()
    for order in ('in_first', 'out_first'):
        for q_frames in (1, 2):
            for out_packets in (2, 5):
                for gap in (0.0005, 0.005, 0.05):
                    sc = {'mixed': True, 'dll': dll, 'order': order, 'q_frames': q_frames, 'out_packets': out_packets, 'gap': gap}
                    _p, probs, outcome, _ = mixed_one(sc, seed)
                    acc.case(repr(sorted(sc.items())), nontrivial=True, outcome=outcome)
                    if probs:
                        acc.violation(csig(probs), sc, (), probs[:4])
    acc.sample({'mixed': 'E is responder of a vanished originator and originator towards a vanished responder at once', 'dll': dll})
    return acc


def worker(item):
    if item[0] == 'mixed':
        return mixed_worker(item)
    shape, bound, seed = item
    acc = Acc()
    if shape.get('early_family'):
        shape = dict(shape)
        shape.pop('early_family')
        n = baseline_frames(shape, seed)
        for k in range(n):
            for early in (0.05, 0.3, 0.7):
                sc = dict(shape, drop=[k], early=early)
                points, probs, outcome, _ = early_one(sc, seed)
                acc.case((repr(sorted(sc.items())), ()), nontrivial=True, outcome=outcome)
                if probs:
                    acc.violation(csig(probs), sc, (), probs[:4])
        acc.add('fault_points', n)
        acc.sample({'shape': shape, 'early_followup_s': [0.05, 0.3, 0.7]})
        return acc
    n = baseline_frames(shape, seed)
    faults = [('none', None, None)]
    faults += [('drop', k, None) for k in range(n)]
    faults += [('silent', k, s) for k in range(n + 1) for s in ('A', 'B')]
    for (kind, k, s) in faults:
        sc = dict(shape)
        if kind == 'drop':
            sc['drop'] = [k]
        elif kind == 'silent':
            sc['silent'] = {s: k}

        def run(prefix):
            points, probs, outcome, _ = run_one(sc, prefix, seed)
            return points, (probs, outcome)

        for choices, ndev, (probs, outcome) in explore(run, bound, {'lat', 'wake'}):
            acc.case((repr(sorted(sc.items())), trim(choices)), nontrivial=kind != 'none', outcome=outcome)
            if probs:
                acc.violation(csig(probs), sc, trim(choices), probs[:4])
    acc.add('fault_points', len(faults) - 1)
    acc.sample({'shape': shape, 'frames_in_fault_free_run': n, 'faults': len(faults) - 1,
                'example_fault': {'silent': {'B': n // 2}}})
    return acc


def shapes(tier):
    quick = tier == 'quick'
    out = []
    for dll in ('j1939-21', 'j1939-22'):
        seg = 7 if dll == 'j1939-21' else 60
        pk = [2, 3, 4, 7, 12] if quick else list(range(2, 13))
        for npk in pk:
            size = seg * npk - (npk % 3)          # last packet full / short by 1 / short by 2
            if dll == 'j1939-22' and size <= 60:
                size = 61
            wins = [(1, 1), (2, 2), (3, 3), (255, 255)]
            if not quick:
                wins = [(a, b) for a in (1, 2, 3, 255) for b in (1, 2, 3, 255)]
            for (wa, wb) in wins:
                if min(wa, wb) >= npk and (wa, wb) != (255, 255) and quick:
                    continue
                out.append({'dll': dll, 'stacks': two(wa, wb), 'base_lat': 1e-3,
                            'msgs': [msg(0x10, 'p2p', 0x20, size)]})
            if npk == 7:
                # a blocking driver (20 ms per frame): a window keeps the job thread inside one pass for up to 140 ms; the
                # timeouts must still be served on time afterwards
                for (wa, wb) in ((5, 5), (255, 255)):
                    out.append({'dll': dll, 'stacks': two(wa, wb), 'base_lat': 1e-3, 'send_cost': 0.02,
                                'msgs': [msg(0x10, 'p2p', 0x20, size)]})
            for kind, dst in (('bam2', 0x42), ('bam1', 255)):
                if kind == 'bam1' and quick and npk not in (2, 4):
                    continue
                out.append({'dll': dll, 'stacks': two(1, 1), 'base_lat': 1e-3,
                            'msgs': [msg(0x10, kind, dst, size)]})
            if npk == 4:
                # receive time stamps that are not time.time(): a backend without time stamping (0.0), a hardware clock that is
                # 30 s ahead / behind - the time-outs run on the stack's own clock
                for ts in ({'zero_ts': True}, {'ts_offset': 30.0}, {'ts_offset': -30.0}):
                    for (wa, wb) in ((1, 1), (3, 3), (255, 255)):
                        out.append(dict({'dll': dll, 'stacks': two(wa, wb), 'base_lat': 1e-3, 'msgs': [msg(0x10, 'p2p', 0x20, size)]}, **ts))
                    out.append(dict({'dll': dll, 'stacks': two(1, 1), 'base_lat': 1e-3, 'msgs': [msg(0x10, 'bam2', 0x42, size)]}, **ts))
    return out


RULE = ("shape = data link layer x {RTS/CTS, BAM} x 2..12 packets x window pair; for every shape the fault-free run "
        "numbers the bus frames, then every single frame k is lost and either peer falls silent from every frame k "
        "on; each faulty run is followed by a fresh transfer on the same pair; 4-packet shapes also with receive time stamps 0.0 / 30 s ahead / "
        "30 s behind the clock; one stack that is responder of a vanished originator and originator towards a vanished responder at the same time "
        "(2 orders x 2 silence points x 2 sizes x 3 offsets per layer); thorough adds every single "
        "latency / wake-latency deviation on the shapes of up to 5 packets; distinct by (shape, fault, choices), non-trivial if a fault is injected")
ASSUME = ["give-up time polled every 10 ms; allowance = standard timeout + 30 ms + the latencies the run chose",
          "a silenced peer neither sends nor receives from frame k on; its own clean-up is judged too",
          "an abort is required from the originator unless it saw EOMA / a peer abort / had sent EOMS (FD), and from a "
          "responder that had received the RTS unless it sent EOMA or saw a peer abort"]


def run(tier, seed):
    bound = 0 if tier == 'quick' else 1
    items = []
    for sh in shapes(tier):
        sh = dict(sh)
        b = 0
        seg = 7 if sh['dll'] == 'j1939-21' else 60
        npk = (sh['msgs'][0]['size'] + seg - 1) // seg
        wins = tuple(x['win'] for x in sh['stacks'])
        if bound and npk <= 5 and wins in ((1, 1), (2, 2), (3, 3), (255, 255), (1, 255), (255, 1), (2, 3)):
            # every single latency / wake deviation on top of every fault: the small shapes
            b = 1
            sh['lat_grid'] = [1e-3, 0.2e-3, 5e-3]
            sh['wake_grid'] = [50e-6, 5e-3]
        items.append((sh, b, seed))
    # broadcasts: the next broadcast 0.05 / 0.3 / 0.7 s after the damaged one (before the receivers' time-out)
    for dll in ('j1939-21', 'j1939-22'):
        seg = 7 if dll == 'j1939-21' else 60
        for npk in (2, 3, 5):
            for kind, dst in (('bam2', 0x42), ('bam1', 255)):
                items.append(({'dll': dll, 'stacks': two(1, 1), 'base_lat': 1e-3, 'early_family': True,
                               'msgs': [msg(0x10, kind, dst, seg * npk - 1)]}, 0, seed))
    items.sort(key=lambda it: -it[0]['msgs'][0]['size'])
    items += [('mixed', dll, seed) for dll in ('j1939-21', 'j1939-22')]
    return run_check(PROP, tier, seed, 'fault_enumeration', items, worker, RULE, ASSUME,
                     bounds={'deviation_bound': bound, 'packets': '2..12', 'faults': 'every lost frame, every silence point of either peer'})


def replay(rec):
    if rec['scenario'].get('mixed'):
        points, probs, outcome, trace = mixed_one(rec['scenario'], rec.get('seed', 0), keep=True)
        print("\n".join(trace))
        if probs:
            print("REPRODUCED: " + "; ".join(probs[:4]))
            print("VIOLATION property=%s replay=(this file)" % PROP)
            return 1
        print("no violation on this tree")
        return 0
    if rec['scenario'].get('early') is not None:
        points, probs, outcome, trace = early_one(rec['scenario'], rec.get('seed', 0), keep=True)
        print("\n".join(trace))
        if probs:
            print("REPRODUCED: " + "; ".join(probs[:4]))
            print("VIOLATION property=%s replay=(this file)" % PROP)
            return 1
        print("no violation on this tree")
        return 0
    points, probs, outcome, trace = run_one(rec['scenario'], [tuple(c) for c in rec['choices']],
                                            rec.get('seed', 0), keep=True)
    print("\n".join(trace))
    if probs:
        print("REPRODUCED: " + "; ".join(probs))
        print("VIOLATION property=%s replay=(this file)" % PROP)
        return 1
    print("no violation on this tree")
    return 0
