"""C17 - DM14 memory access returns and stores exactly the addressed data.
Transaction histories between a real client and a real server MemoryAccess against the memmap
reference model.  DESIGN.md section 4 / C17."""
from ..explore import explore, trim
from ..runner import Acc, run_check
from ..dm14 import DmWorld, mem_bytes, values_of, bytes_of, SRV, CLI

PROP = 'C17'
LATS = [1e-3, 0.2e-3, 5e-3]
QUICK_N = [1, 2, 6, 7, 8, 9, 14, 15, 16, 255]
ADDRS = [0x1000, 0x91000007, 0x00000000, 0xFFFFFFFF]


def judge_one(d, op, r, served):
    """problems of one well-formed operation; consumes its entry of `served`"""
    probs = []
    what = "%s of %d byte(s)" % (op['cmd'], op.get('nbytes', len(op.get('values', [])) * op.get('size', 1)))
    if 'exc' in r:
        probs.append("%s raised %s: %s" % (what, r['exc'][0], r['exc'][1][:60]))
        return probs
    sv = served.pop(0) if served else None
    if op['cmd'] == 'read':
        raw = mem_bytes(op['address'], op['nbytes'], op.get('salt', 0))
        want = raw if op.get('raw', True) else values_of(raw, op.get('size', 1), op.get('signed', False))
        if r['ret'] != want:
            probs.append("%s returned %s, the server supplied %s" % (what, _brief(r['ret']), _brief(want)))
        if sv is None or sv[0] != 'read':
            probs.append("%s: the serving application was not asked to serve it (%r)" % (what, sv and sv[0]))
        elif sv[1:5] != (1, op['address'], op.get('direct', 1), op['count']):
            probs.append("%s: serving application was told command/address/pointer type/count %r, requested %r"
                         % (what, sv[1:5], (1, op['address'], op.get('direct', 1), op['count'])))
    else:
        wb = bytes(bytes_of(op['values'], op.get('size', 1)))
        if sv is None or sv[0] != 'write':
            probs.append("%s: the serving application was not handed the data (%r)" % (what, sv and sv[:3]))
        else:
            if sv[5] != wb:
                probs.append("%s: serving application received %s, written %s" % (what, _brief(sv[5]), _brief(wb)))
            if sv[1:5] != (2, op['address'], op.get('direct', 1), len(op['values'])):
                probs.append("%s: serving application was told command/address/pointer type/count %r, requested %r"
                             % (what, sv[1:5], (2, op['address'], op.get('direct', 1), len(op['values']))))
    return probs


def judge(d, ops):
    """problems of one history of well-formed operations"""
    probs = []
    served = list(d.served)
    for i, op in enumerate(ops):
        if i >= len(d.results):
            probs.append("client call %d never returned" % (i + 1))
            break
        probs += judge_one(d, op, d.results[i], served)
    if served:
        probs.append("serving application acted %d time(s) more than there were requests: %r" % (len(served), served[0][:2]))
    st = d.snapshot_states()
    if st != d.idle_ref and not probs:
        bad = [k for k in st if st[k] != d.idle_ref[k]]
        probs.append("not idle at quiescence: %s in state %s" % (bad[0], st[bad[0]]))
    probs += d.dead()
    return probs


def _brief(x):
    if x is None:
        return 'None'
    x = list(x)
    return "%d item(s) %s%s" % (len(x), x[:6], '...' if len(x) > 6 else '')


def run_one(sc, prefix=(), seed=0, keep=False):
    d = DmWorld(sc['cfg'], prefix)
    try:
        d.run(sc['ops'])
        probs = judge(d, sc['ops'])
        outcome = ([(f.src, f.can_id, f.data) for f in d.bus.log], d.snapshot_states())
        return d.ch.points, probs, outcome, d.trace() if keep else None
    finally:
        d.close()


def csig(probs):
    import re
    p = probs[0]
    p = re.sub(r'of \d+ byte\(s\)', 'of N byte(s)', p)
    p = p.split(' returned ')[0] + (' returned something else than the server supplied' if ' returned ' in p else '')
    p = p.split(': serving application received')[0] + (': serving application received other bytes than written' if 'serving application received' in p else '')
    p = re.sub(r'was told command/address/pointer type/count .*', 'was told a different command/address/pointer type/count', p)
    p = re.sub(r'raised (\w+): .*', r'raised \1', p)
    return p[:120]


def worker(item):
    if item[0] == 'preempt':
        return preempt_worker(item)
    chunk, bound, seed = item
    acc = Acc()
    for sc in chunk:
        def run(prefix):
            points, probs, outcome, _ = run_one(sc, prefix, seed)
            return points, (probs, outcome)

        for choices, ndev, (probs, outcome) in explore(run, bound, {'lat', 'wake'}):
            acc.case((repr(sc), trim(choices)), outcome=outcome)
            acc.add('transactions', len(sc['ops']))
            if probs:
                acc.violation(csig(probs), sc, trim(choices), probs[:3])
    acc.sample({'scenario': chunk[0], 'deviation_bound': bound})
    return acc


def preempt_worker(item):
    """one thread of the transaction - the receive thread of either stack, the client or the server application thread - is
    suspended for 2 ms at every source line it executes in the DM14 code (every party runs on a thread of its own)"""
    _k, sd, op, thread, seed = item
    acc = Acc()
    ops = [dict(op), rd(0x1000, 4)]
    base = {'seed': sd, 'base_lat': 0.2e-3, 'rx_threads': True}
    counts = []
    for _ in range(2):
        sc = {'cfg': dict(base, preempt={'thread': thread, 'point': 0}), 'ops': ops}
        d = DmWorld(sc['cfg'])
        try:
            d.run(ops)
            counts.append(d.pre.count)
            p0 = judge(d, ops)
        finally:
            d.close()
    if counts[0] != counts[1] or p0:
        acc.violation("HARNESS: DM14 pre-emption baseline not clean / not reproducible", {'cfg': base, 'ops': ops}, None, p0[:2] + [repr(counts)])
        return acc
    for pt in range(1, counts[0] + 1):
        sc = {'cfg': dict(base, preempt={'thread': thread, 'point': pt, 'hold': 0.002}), 'ops': ops}
        points, probs, outcome, _ = run_one(sc, (), seed)
        acc.case((repr(sc), ()), outcome=outcome)
        acc.add('transactions', len(ops))
        if probs:
            acc.violation(csig(probs), sc, None, probs[:3])
    acc.sample({'scenario': {'cfg': base, 'ops': ops}, 'thread': thread, 'line_events': counts[0]})
    return acc


def rd(address, nbytes, size=1, signed=False, raw=True, direct=1, salt=0):
    return {'cmd': 'read', 'address': address, 'count': nbytes // size, 'nbytes': nbytes, 'size': size, 'signed': signed,
            'raw': raw, 'direct': direct, 'salt': salt}


def wr(address, nbytes, size=1, direct=1, pat=0):
    n = nbytes // size
    top = (1 << (8 * size)) - 1
    vals = [[(i * 0x3B + 7) & top for i in range(n)], [top] * n, [0] * n, [(top >> 1) + 1 - (i & 1) for i in range(n)]][pat % 4]
    return {'cmd': 'write', 'address': address, 'values': vals, 'size': size, 'direct': direct}


def scenarios(tier, seed):
    quick = tier == 'quick'
    out = []
    lens = QUICK_N if quick else list(range(1, 256))
    seeds = [None, 1, 0xA55A, 0xFFFE] if not quick else [None, 0xA55A]
    # (1) single transactions: every length x object size x signedness x raw/converted x pointer type x seed/key
    for n in lens:
        for sd in seeds:
            for size in (1, 2, 4, 8):
                if n % size:
                    continue
                for direct in (1, 0):
                    if quick and direct == 0 and n not in (1, 8, 16):
                        continue
                    cfg = {'seed': sd}
                    adr = ADDRS[(n + size) % 4]
                    for (signed, raw) in ((False, True), (False, False), (True, False)):
                        out.append(({'cfg': cfg, 'ops': [rd(adr, n, size, signed, raw, direct, salt=seed)]}, 0))
                    for pat in (0, 1) if quick else (0, 1, 2, 3):
                        out.append(({'cfg': cfg, 'ops': [wr(adr, n, size, direct, pat)]}, 0))
    # (2) back-to-back histories on the same objects (all pairs; triples in thorough), incl. the Dm14Query client
    hl = [1, 7, 8, 9, 16] if quick else [1, 7, 8, 9, 16, 255]
    singles = [rd(0x1000, n) for n in hl] + [wr(0x1000, n) for n in hl]
    # signed / converted reads and writes of values with the top bit set, object sizes 1 and 2
    singles += [rd(0x1000, 8, 1, True, False), rd(0x1000, 8, 2, True, False), rd(0x1000, 4, 2, False, False),
                wr(0x1000, 8, 1, 1, 1), wr(0x1000, 8, 2, 1, 1), wr(0x1000, 4, 2, 1, 3)]
    for sd in (None, 0xA55A):
        for a in singles:
            for b in singles:
                out.append(({'cfg': {'seed': sd}, 'ops': [dict(a), dict(b)]}, 0))
                if not quick:
                    for c in singles[::3]:
                        out.append(({'cfg': {'seed': sd}, 'ops': [dict(a), dict(b), dict(c)]}, 0))
        for a in singles[:2] + singles[-2:]:
            out.append(({'cfg': {'seed': sd, 'client': 'query'}, 'ops': [dict(a)]}, 0))
        # transactions that follow one another without an idle gap
        for a in singles[:10]:
            for b in (rd(0x1000, 4), wr(0x1000, 9)):
                for gap in (0.0, 0.001):
                    out.append(({'cfg': {'seed': sd}, 'ops': [dict(a, gap=gap), dict(b)]}, 0))
        # the serving application supplies fewer (or more) bytes than objects were requested - e.g. a read that runs over the
        # end of a memory region: the client returns exactly what was supplied
        for (count, nb) in ((16, 4), (16, 7), (9, 7), (8, 7), (8, 1), (3, 9), (7, 8), (4, 16)):
            out.append(({'cfg': {'seed': sd}, 'ops': [dict(rd(0x1000, nb), count=count), rd(0x1000, 4)]}, 0))
        # different objects one after the other
        out.append(({'cfg': {'seed': sd}, 'ops': [rd(0x1000, 4), rd(0x2000, 4), wr(0x3000, 9), rd(0x1000, 9)]}, 0))
    # (3) delivery latencies in (0, 5 ms]: every uniform latency and every single per-frame deviation
    for sd in (None, 0xA55A):
        lops = (rd(0x1000, 1), rd(0x1000, 9), wr(0x1000, 1), wr(0x1000, 9))
        if not quick:
            lops += (rd(0x1000, 7), rd(0x1000, 8), rd(0x1000, 16), wr(0x1000, 7), wr(0x1000, 8), wr(0x1000, 16))
        for op in lops:
            for base in LATS:
                cfg = {'seed': sd, 'base_lat': base, 'lat_grid': [base] + [x for x in LATS if x != base], 'wake_grid': [50e-6, 1e-3, 5e-3]}
                out.append(({'cfg': cfg, 'ops': [dict(op)]}, 1 if quick else 2))
    # (4) a blocking driver: every send call of either stack takes 0.3 / 3 / 15 ms (longer than a bus round trip), so replies are
    #     handled by the receive thread while the application thread that triggered them is still inside its send call
    for sd in (None, 0xA55A):
        for cost in (0.3e-3, 3e-3, 15e-3):
            for base in (0.2e-3, 1e-3):
                for n in (1, 7, 8, 9):
                    for first in (rd(0x1000, n), wr(0x1000, n)):
                        for second in (rd(0x1000, 4), wr(0x1000, 9)):
                            for (rxt, vis) in ((False, 1.0), (True, 1.0), (True, 0.0)):
                                # rx_threads: frames are handled on a controlled receive thread per stack, so a send call made
                                # by a handler blocks that thread only; send_visible 0: the frame is on the bus at once and the
                                # call returns after the cost (a driver that waits for the transmit confirmation)
                                out.append(({'cfg': {'seed': sd, 'base_lat': base, 'send_cost': cost, 'rx_threads': rxt, 'send_visible': vis},
                                             'ops': [dict(first), dict(second)]}, 0))
                                if rxt:
                                    # the second transaction follows at once (no idle gap)
                                    out.append(({'cfg': {'seed': sd, 'base_lat': base, 'send_cost': cost, 'rx_threads': rxt, 'send_visible': vis},
                                                 'ops': [dict(first, gap=0.0), dict(second)]}, 0))
    return out


RULE = ("transaction histories between a real client MemoryAccess (or Dm14Query) and a real server MemoryAccess on two real J1939-21 "
        "stacks, each application on its own controlled thread: every data length (quick: {1,2,6,7,8,9,14,15,16,255}; thorough 1..255) x "
        "object size {1,2,4,8} x signed / unsigned x raw / converted x direct / spatial x seed/key off / on (seeds 1, 0xA55A, 0xFFFE) x "
        "read / write with 2..4 value patterns; all ordered pairs (thorough: triples) of transactions on the same objects; single "
        "transactions on every uniform latency {0.2,1,5 ms} with every single (thorough: pair of) per-frame latency / wake deviation; "
        "distinct by (history, choices)")
ASSUME = ["the serving application supplies count x size bytes for a read (it knows the object size from the scenario)",
          "the last transaction of a history is followed by a 1.5 s idle gap before the states are judged (between transactions: 1.5 s, or none in the back-to-back families)", "memory contents are a function of the address and VERIF_SEED"]


def run(tier, seed):
    sc = scenarios(tier, seed)
    light = [s for (s, b) in sc if b == 0]
    light.sort(key=lambda s: -sum(o.get('nbytes', len(o.get('values', ()))) for o in s['ops']))
    items = [(light[i::max(1, len(light) // 60)], 0, seed) for i in range(max(1, len(light) // 60))]
    for (s, b) in sc:
        if b:
            items.append(([s], b, seed))
    pops = [rd(0x1000, 4), wr(0x1000, 9)] if tier == 'quick' else [rd(0x1000, 1), rd(0x1000, 4), rd(0x1000, 8), rd(0x1000, 9), wr(0x1000, 4), wr(0x1000, 8), wr(0x1000, 9)]
    for sd in (None, 0xA55A):
        for op in pops:
            for thread in ('R:C', 'R:S', 'cliapp', 'srvapp'):
                items.append(('preempt', sd, op, thread, seed))
    return run_check(PROP, tier, seed, 'exploration', items, worker, RULE, ASSUME,
                     bounds={'lengths': '1..255' if tier != 'quick' else QUICK_N, 'deviation_bound': 1 if tier == 'quick' else 2})


def replay(rec):
    points, probs, outcome, trace = run_one(rec['scenario'], [tuple(c) for c in rec['choices']], rec.get('seed', 0), keep=True)
    print("\n".join(trace))
    if probs:
        print("REPRODUCED: " + "; ".join(probs[:4]))
        print("VIOLATION property=%s replay=(this file)" % PROP)
        return 1
    print("no violation on this tree")
    return 0
