"""C04 - address claiming yields unique addresses; the lowest NAME keeps a contested one.
Also hosts the claim-state probes of C13.  DESIGN.md section 4 / C04, C13."""
import itertools

from .. import rt
from ..explore import explore, trim
from ..runner import Acc, run_check
from ..net import Bus, Stack, j1939
from .. import refcodec as R

PROP = 'C04'
CA = j1939.ControllerApplication
NORMAL, CANNOT, WAIT, NONE = CA.State.NORMAL, CA.State.CANNOT_CLAIM, CA.State.WAIT_VETO, CA.State.NONE
LATS = [1e-3, 0.0, 0.2e-3, 5e-3]
WAKES = [50e-6, 1e-3, 5e-3]
DELAYS = [0.0, 0.1, 0.249, 0.251, 0.4, 0.7]
CLAIM_PF = 0xEE


def lat_grid(base):
    return [base] + [x for x in LATS if x != base]


class HoldInClaim:
    """trace factory: numbers the line events the job thread of stack #stack executes in controller_application.py and holds
    the thread at the chosen one"""

    def __init__(self, stack, point, hold):
        self.stack, self.point, self.hold = stack, point, hold
        self.count = 0
        self.where = None
        self.seen = 0

    def __call__(self, lt, idx):
        if lt.kind != 'J':
            return None
        k = self.seen
        self.seen += 1
        if k != self.stack:
            return None
        me = self

        def tracer(frame, event, arg):
            if not frame.f_code.co_filename.endswith('controller_application.py'):
                return tracer if event == 'call' else None
            if event == 'line':
                me.count += 1
                if me.count == me.point:
                    me.where = "%s:%d" % (frame.f_code.co_name, frame.f_lineno)
                    rt.CUR.hold(me.hold)
            return tracer
        return tracer


class ClaimNet:
    """sc = {'cas': [{'idn': identity number, 'aac': 0|1, 'addr': preferred, 'start': t, 'delay': d}],
             'base_lat', 'lat_grid', 'wake_grid'}"""

    def __init__(self, sc, prefix=(), seed=0, probes=False):
        self.sc = sc
        self.ch = rt.Chooser(prefix)
        self.pre = None
        if sc.get('preempt'):
            # the job thread of one ECU is held at one source line of controller_application.py (numbered by a baseline run)
            self.pre = HoldInClaim(sc['preempt']['stack'], sc['preempt']['point'], sc['preempt'].get('hold', 0.004))
        self.w = w = rt.World(self.ch, wake_grid=sc.get('wake_grid'), trace_factory=self.pre)
        rt.activate(w)
        self.bus = bus = Bus(w, base_lat=sc.get('base_lat', 1e-3), lat_grid=sc.get('lat_grid'))
        bus.cap = 400
        self.stacks, self.cas, self.names = [], [], []
        self.probes = probes
        self.probe_problems = []
        self.nprobes = 0
        self.stack_of = []
        by_key = {}
        for i, c in enumerate(sc['cas']):
            key = c.get('stack', i)          # CAs with the same 'stack' value live on one ECU (default: one ECU each)
            if key in by_key:
                st = by_key[key]
            else:
                st = by_key[key] = Stack(bus, 'S%d' % i, dll=sc.get('dll', 'j1939-21'))
                self.stacks.append(st)
            self.stack_of.append(st)
            nm = j1939.Name(arbitrary_address_capable=c['aac'], industry_group=2, vehicle_system=5,
                            function=0x81, manufacturer_code=0x123, identity_number=c['idn'] + (seed % 7) * 16)
            ca = CA(nm, c['addr'], bypass_address_claim=bool(c.get('bypass')))
            st.ecu.add_ca(controller_application=ca)
            self.cas.append(ca)
            self.names.append(R.name_value({'arbitrary_address_capable': c['aac'], 'industry_group': 2, 'vehicle_system': 5,
                                            'function': 0x81, 'manufacturer_code': 0x123,
                                            'identity_number': c['idn'] + (seed % 7) * 16}))
        w.run_for(0.01)
        self.t0 = w.now
        for i, c in enumerate(sc['cas']):
            if not c.get('never'):
                w.at(self.t0 + c.get('start', 0.0), lambda ca=self.cas[i], d=c['delay']: ca.start(claim_delay=d))
        self.last_claim_start = self.t0 + max([c.get('start', 0.0) + c['delay'] for c in sc['cas'] if not c.get('never')] + [0.0])
        if probes:
            bus.taps.append(self._tap)
            t = self.t0 + 0.05
            while t < self.last_claim_start + 3.0:
                w.at(t, self.probe_all)
                t += 0.125

    # ------------------------------------------------------------------ reference knowledge from the bus
    def claims(self):
        """[(t, frame idx, stack index, SA, NAME value)] of every address-claimed frame"""
        out = []
        for f in self.bus.log:
            if f.pf == CLAIM_PF and len(f.data) == 8:
                v = int.from_bytes(f.data, 'little')
                # the claimant is identified by the NAME in the frame (several CAs may share an ECU)
                si = self.names.index(v) if v in self.names else int(f.src[1:])
                out.append((f.t, f.idx, si, f.sa, v))
        return out

    def lost_address(self, i):
        """reference: True if CA i's most recent claim was for address X and a claim for X by a lower NAME has
        been delivered to (= handled to the end by) its stack since"""
        last = None
        for (t, idx, si, sa, v) in self.claims():
            if si == i:
                last = (idx, sa)
        if last is None and self.sc['cas'][i].get('bypass'):
            last = (-1, self.sc['cas'][i]['addr'])      # holds its configured address without ever having claimed it
        if last is None or last[1] == 254:
            return True
        got = self.stack_of[i].rx_done          # handled to the end: a handler that waits for the claim lock has not told the CA yet
        for (t, idx, si, sa, v) in self.claims():
            same_ecu = si < len(self.stack_of) and self.stack_of[si] is self.stack_of[i]
            if si != i and idx > last[0] and sa == last[1] and v < self.names[i] and (idx in got or same_ecu):
                return True
        return False

    # ------------------------------------------------------------------ C13 probes
    def _tap(self, fr):
        self.w.at(self.w.now + 1e-5, self.probe_all)
        self.w.at(self.w.now + 6e-3, self.probe_all)

    def probe_all(self):
        for i in range(len(self.cas)):
            self.probe(i)

    def probe(self, i):
        ca = self.cas[i]
        bus = self.bus
        st_before = (ca.state, ca.device_address)
        entries = [
            ('send_pgn', lambda: ca.send_pgn(0, 0xD0, 0x33, 6, [1, 2, 3])),
            ('send_pgn(PDU2)', lambda: ca.send_pgn(0, 0xFE, 0x10, 6, [1, 2, 3, 4, 5, 6, 7, 8])),
            ('send_message', lambda: ca.send_message(6, 0xFE10, [1, 2, 3, 4, 5, 6, 7, 8])),
            ('send_request', lambda: ca.send_request(0, 0xFEEE, 0x33)),
            ('send_request(ADDRESSCLAIM)', lambda: ca.send_request(0, 0xEE00, 255)),
            ('Dm22.request_clear_act_dtc', lambda: j1939.Dm22(ca).request_clear_act_dtc(0x33, 100, 3)),
        ]
        dm1 = j1939.Dm1(ca)
        if hasattr(dm1, '_send'):
            entries.append(('Dm1 cyclic send', lambda: dm1._send({'cb': lambda: ({'pl': 1}, [{'spn': 100, 'fmi': 2, 'oc': 1}])})))
        q = j1939.Dm14Query(ca)
        if hasattr(q, '_send_dm14'):
            def dm14():
                q._dest_address, q.direct, q.address, q.object_count, q.command = 0x33, 1, 0x1000, 1, j1939.Command.READ
                q._send_dm14(7)
            entries.append(('Dm14Query request', dm14))
        normal = ca.state == NORMAL
        for name, fn in entries:
            bus.capture = []
            raised = None
            try:
                fn()
            except rt.Killed:
                raise
            except Exception as e:
                raised = e
            frames = bus.capture
            bus.capture = None
            self.nprobes += 1
            if not normal:
                if name == 'send_request(ADDRESSCLAIM)':
                    ok = raised is None and len(frames) == 1 and frames[0].sa == 254 and frames[0].pf == 0xEA \
                        and bytes(frames[0].data) == bytes([0x00, 0xEE, 0x00])
                    if not ok:
                        self.probe_problems.append("%s without an address: expected exactly one request frame from the null address 254, got %s%s"
                                                   % (name, [f.brief() for f in frames], ' raised %r' % raised if raised else ''))
                else:
                    if frames:
                        self.probe_problems.append("%s put a frame on the bus while the CA holds no address (state %d)" % (name, ca.state))
                    elif raised is None and name == 'Dm1 cyclic send':
                        pass        # the timer callback of the cyclic service: it skips the cycle (raising there would end the job thread)
                    elif raised is None:
                        self.probe_problems.append("%s did not raise while the CA holds no address (state %d)" % (name, ca.state))
            else:
                if raised is not None:
                    if name in ('Dm1 cyclic send', 'Dm14Query request') and not isinstance(raised, RuntimeError):
                        continue          # internal method with a different signature after a refactoring: not judged
                    self.probe_problems.append("%s raised %r in the operational state" % (name, type(raised).__name__))
                for f in frames:
                    if not (0 <= f.sa <= 253):
                        self.probe_problems.append("%s sent application data from the address %d, which no CA can hold" % (name, f.sa))
                    if f.sa != ca.device_address:
                        self.probe_problems.append("%s sent a frame with source %d, the CA holds %d" % (name, f.sa, ca.device_address))
                if frames and self.lost_address(i):
                    self.probe_problems.append("%s sent application data from address %d after the CA had lost it to a lower NAME"
                                               % (name, frames[0].sa))
                mine = [sa for (_t, _idx, si, sa, _v) in self.claims() if si == i]
                if frames and mine and frames[0].sa != mine[-1]:
                    self.probe_problems.append("%s sent application data from address %d, but the CA's most recent address claim on the bus is for %d"
                                               % (name, frames[0].sa, mine[-1]))
        if (ca.state, ca.device_address) != st_before:
            self.probe_problems.append("HARNESS: probe changed the claim state")

    # ------------------------------------------------------------------ C04 oracle
    def snapshot(self):
        return [(ca.state, ca.device_address) for ca in self.cas]

    def judge(self, snap, when):
        probs = []
        n = len(self.cas)
        for i, (st, adr) in enumerate(snap):
            if self.sc['cas'][i].get('never'):
                continue
            if st not in (NORMAL, CANNOT):
                probs.append("%s: CA %d is neither operational nor cannot-claim (state %d)" % (when, i, st))
        holders = {}
        for i, (st, adr) in enumerate(snap):
            if st == NORMAL:
                holders.setdefault(adr, []).append(i)
                if not (isinstance(adr, int) and 0 <= adr <= 253):
                    probs.append("%s: CA %d is operational on %r, which is not a claimable address (0..253)" % (when, i, adr))
        for (t, idx, si, sa, v) in self.claims():
            if sa == 255:
                probs.append("%s: CA %d sent an address-claimed frame from the global address 255" % (when, si))
                break
        for adr, lst in sorted(holders.items(), key=lambda kv: repr(kv[0])):
            if len(lst) > 1:
                probs.append("%s: CAs %s are all operational on address %d" % (when, lst, adr))
        claimed = {}
        last_claim = {}
        for (t, idx, si, sa, v) in self.claims():
            if sa != 254:
                claimed.setdefault(sa, set()).add(si)
            last_claim[si] = (sa, v)
        for adr, who in sorted(claimed.items()):
            low = min(who, key=lambda i: self.names[i])
            if snap[low] != (NORMAL, adr):
                probs.append("%s: address %d was contended by CAs %s; the lowest NAME (CA %d) does not hold it (state %d, address %d)"
                             % (when, adr, sorted(who), low, snap[low][0], snap[low][1]))
        for i, c in enumerate(self.sc['cas']):
            lost = any(i in who and min(who, key=lambda k: self.names[k]) != i for who in claimed.values())
            if not lost:
                continue
            if not c['aac']:
                if snap[i][0] != CANNOT:
                    probs.append("%s: fixed-address CA %d lost its address but is not in cannot-claim (state %d)" % (when, i, snap[i][0]))
                elif last_claim.get(i, (None, None))[0] != 254 or last_claim[i][1] != self.names[i]:
                    probs.append("%s: CA %d lost but did not announce cannot-claim from the null address with its NAME" % (when, i))
            else:
                lost253 = (253 in claimed and i in claimed[253] and min(claimed[253], key=lambda k: self.names[k]) != i)
                if lost253:
                    # 253 is the last claimable address: nothing is left to re-claim, cannot-claim (announced from 254) it is
                    if snap[i][0] != CANNOT:
                        probs.append("%s: arbitrary-address-capable CA %d lost address 253 (the last one) but is not in cannot-claim (state %d, address %r)"
                                     % (when, i, snap[i][0], snap[i][1]))
                    elif last_claim.get(i, (None, None))[0] != 254 or last_claim[i][1] != self.names[i]:
                        probs.append("%s: CA %d lost but did not announce cannot-claim from the null address with its NAME" % (when, i))
                elif snap[i][0] != NORMAL or snap[i][1] == c['addr']:
                    probs.append("%s: arbitrary-address-capable CA %d lost but did not settle on another address (state %d, address %d)"
                                 % (when, i, snap[i][0], snap[i][1]))
        return probs

    def run(self):
        w = self.w
        n = len(self.cas)
        w.run(self.last_claim_start + n * 0.75 + 0.05)
        settle = self.snapshot()
        w.run(self.last_claim_start + 3.0)
        final = self.snapshot()
        probs = []
        if self.bus.storm:
            probs.append("frame storm: more than %d frames on the bus" % self.bus.cap)
        quiet_since = self.bus.log[-1].t if self.bus.log else self.t0
        if w.now - quiet_since < 1.0:
            probs.append("bus not quiet: last frame %.2f s before the horizon" % (w.now - quiet_since))
        probs += self.judge(final, "at quiescence")
        if settle != final and not probs:
            probs.append("not settled within %d x 0.75 s after the last claim start: %r then, %r at quiescence" % (n, settle, final))
        for st in self.stacks:
            if st.job.exc is not None:
                probs.append("job thread of %s dead: %s" % (st.name, st.job.exc_type))
        return probs

    def trace(self):
        lines = [f.brief() for f in self.bus.log]
        lines.append("final: %r names: %s" % (self.snapshot(), ['%016X' % v for v in self.names]))
        return lines

    def close(self):
        self.w.shutdown()


def run_one(sc, prefix=(), seed=0, keep=False, probes=False):
    net = ClaimNet(sc, prefix, seed, probes)
    try:
        probs = net.run()
        if probes:
            probs = net.probe_problems[:]        # C13 judges the probes only
        outcome = ([(f.src, f.can_id) for f in net.bus.log], net.snapshot())
        return net.ch.points, probs, outcome, net.trace() if keep else None, net.nprobes
    finally:
        net.close()


def csig(probs):
    p = probs[0]
    if 'are all operational on address' in p:
        return 'two CAs operational on one address at quiescence'
    if 'the lowest NAME' in p:
        return 'the lowest NAME does not keep the contested address'
    if 'not settled within' in p:
        return 'not settled within the bound'
    return p.split(': ', 1)[-1] if p.startswith('at quiescence') else p


def preempt_worker(item):
    """the job thread of one ECU is held at every source line it executes in controller_application.py (the claim timer
    callback) while the contending claim of another ECU is handled by its receive thread"""
    _k, base, stack, seed = item[:4]
    probes = len(item) > 4 and item[4]          # C13: judge the entry-point probes of the run instead of the claim outcome
    acc = Acc()
    counts = []
    for _ in range(2):
        net = ClaimNet(dict(base, preempt={'stack': stack, 'point': 0}), (), seed)
        try:
            net.run()
            counts.append(net.pre.count)
        finally:
            net.close()
    if counts[0] != counts[1]:
        acc.violation("HARNESS: line-event numbering not reproducible", base, None, [repr(counts)])
        return acc
    for pt in range(1, counts[0] + 1):
        for hold in (0.002, 0.006):
            sc = dict(base, preempt={'stack': stack, 'point': pt, 'hold': hold})
            net = ClaimNet(sc, (), seed, probes)
            try:
                probs = net.run()
                if probes:
                    probs = net.probe_problems[:]
                    acc.add('entry_point_probes', net.nprobes)
                where = net.pre.where
                outcome = ([(f.src, f.can_id) for f in net.bus.log], net.snapshot())
            finally:
                net.close()
            acc.case(repr(sorted(sc.items(), key=repr)), nontrivial=True, outcome=outcome)
            if probs:
                acc.violation(item[5](probs) if len(item) > 5 else csig(probs), sc, [], probs[:3] + ["job thread held at %s" % where])
    acc.sample({'scenario': base, 'preempted_stack': stack, 'line_events': counts[0]})
    return acc


def worker(item):
    if item[0] == 'preempt':
        return preempt_worker(item)
    sc, bound, seed = item
    acc = Acc()

    def run(prefix):
        points, probs, outcome, _, _n = run_one(sc, prefix, seed)
        return points, (probs, outcome)

    for choices, ndev, (probs, outcome) in explore(run, bound):
        contested = len(set(c['addr'] for c in sc['cas'])) < len(sc['cas'])
        acc.case((repr(sorted(sc.items())), trim(choices)), nontrivial=contested or len(outcome[0]) > len(sc['cas']), outcome=outcome)
        if probs:
            acc.violation(csig(probs), sc, trim(choices), probs[:4])
    acc.sample({'scenario': sc, 'deviation_bound': bound, 'executions': acc.evals})
    return acc


def configs(tier):
    """yields (scenario, bound)"""
    quick = tier == 'quick'
    out = []
    for n in ((2, 3) if quick else (2, 3, 4)):
        perms = list(itertools.permutations(range(1, n + 1)))
        if n == 4:
            perms = [perms[0], perms[5], perms[9], perms[14], perms[23]]
        aacs = list(itertools.product((0, 1), repeat=n))
        if n == 4:
            aacs = [(0, 0, 0, 0), (1, 1, 1, 1), (1, 0, 1, 0), (0, 1, 1, 1)]
        bases_addr = [10, 128, 249, 126]
        patterns = []
        for b in bases_addr:
            patterns.append([b] * n)                                  # equal
            patterns.append([b + i for i in range(n)])                # adjacent
            if n >= 3:
                patterns.append([b, b, b + 1] + [b + 1] * (n - 3))    # two equal + neighbour(s)
                patterns.append([b, b + 1, b] + [b + 2] * (n - 3))
        patterns.append([128 + 20 * i for i in range(n)])             # distinct
        if n == 2:
            delays = list(itertools.product(DELAYS, repeat=2))
        elif n == 3:
            g = [0.0, 0.249, 0.251, 0.7] if quick else DELAYS
            delays = list(itertools.product(g, repeat=3))
            if quick:
                delays = [d for d in delays if d[0] == 0.0 or d[1] == 0.0 or d[2] == 0.0]
        else:
            delays = [(0, 0, 0, 0), (0, 0.1, 0.249, 0.251), (0.7, 0.4, 0.251, 0), (0, 0.251, 0, 0.7), (0.249, 0, 0.4, 0.1)]
        for perm in perms:
            for aac in aacs:
                for pat in patterns:
                    for dl in delays:
                        if quick and n == 3 and (sum(aac) in (1, 2)) and pat[0] not in (128,):
                            continue
                        for base in LATS:
                            if quick and n == 3 and base == 0.2e-3:
                                continue
                            cas = [{'idn': perm[i], 'aac': aac[i], 'addr': pat[i], 'delay': dl[i]} for i in range(n)]
                            sc = {'cas': cas, 'base_lat': base}
                            out.append((sc, 0))
        # two CAs on one ECU (the bus does not echo a node's own frames to it): same preferred address, or an
        # arbitrary-address-capable CA that is pushed onto the address of its sibling by a CA of another ECU
        if n <= 3:
            for perm in perms:
                for aac in aacs:
                    for pat in ([128] * n, [128, 129, 128][:n], [129, 128, 128][:n], [10] * n):
                        for dl in (tuple([0.0] * n), tuple(DELAYS[1:n + 1]), tuple(reversed(DELAYS[1:n + 1]))):
                            for together in ((0, 1), (1, 2), (0, 2)) if n == 3 else ((0, 1),):
                                cas = [{'idn': perm[i], 'aac': aac[i], 'addr': pat[i], 'delay': dl[i]} for i in range(n)]
                                cas[together[0]]['stack'] = 'shared'
                                cas[together[1]]['stack'] = 'shared'
                                out.append(({'cas': cas, 'base_lat': 1e-3}, 0))
        # the top of the address range: the next address after 253 is the null address - there is none left to re-claim
        if n <= 3:
            for perm in perms:
                for aac in aacs:
                    for pat in ([253] * n, [252] * n, [252, 253, 253][:n], [253, 252, 252][:n]):
                        for dl in (tuple([0.0] * n), tuple(DELAYS[1:n + 1]), tuple(reversed(DELAYS[1:n + 1]))):
                            for base in (1e-3, 0.0):
                                cas = [{'idn': perm[i], 'aac': aac[i], 'addr': pat[i], 'delay': dl[i]} for i in range(n)]
                                out.append(({'cas': cas, 'base_lat': base}, 0))
        # a CA created with claiming bypassed (operational without ever having claimed) and started, contended by the others
        for perm in perms:
            for aac in aacs:
                for pat in patterns[:3] + patterns[4:7]:
                    for dl in ([tuple([0.1] * n), tuple(DELAYS[1:n + 1])] if quick else delays[:12]):
                        for byp in range(n):
                            for base in (1e-3, 0.0) if quick else LATS:
                                cas = [{'idn': perm[i], 'aac': aac[i], 'addr': pat[i], 'delay': dl[i], 'bypass': i == byp}
                                       for i in range(n)]
                                out.append(({'cas': cas, 'base_lat': base}, 0))
        # deviation-bounded part: default timing families, every single (pair of) latency / wake deviation
        for perm in perms[:2] if quick else perms:
            for aac in aacs:
                for pat in patterns[:6] if quick else patterns:
                    for dl in ([tuple([0.0] * n), tuple(DELAYS[1:n + 1])] if quick else delays[:8]):
                        cas = [{'idn': perm[i], 'aac': aac[i], 'addr': pat[i], 'delay': dl[i]} for i in range(n)]
                        sc = {'cas': cas, 'base_lat': 1e-3, 'lat_grid': lat_grid(1e-3), 'wake_grid': WAKES}
                        out.append((sc, 1 if (quick or n > 2) else 2))
    return out


RULE = ("scenario = 2..3 (thorough 4) CAs on separate stacks x all orderings of their NAMEs x arbitrary-address-capable or not x "
        "preferred addresses equal / adjacent / mixed / distinct in the immediate (10, 126, 249) and veto (128) ranges x claim "
        "delays on the grid {0,0.1,0.249,0.251,0.4,0.7 s} x uniform latency {0,0.2,1,5 ms}; default-timing families additionally "
        "with every single (pair of) per-frame latency / per-wait wake deviation; distinct by (scenario, choices); non-trivial "
        "if an address is contended")
ASSUME = ["NAMEs differ in the identity number and in the AAC bit (bit 63 takes part in the order)",
          "room is left below 247 / 253 for every chain of re-claims", "settling bound: number of CAs x 0.75 s after the last claim start"]


def preempt_items(tier, seed):
    """two ECUs contending for one address in the veto range; the second claim arrives shortly before / at / after the moment
    the first CA's veto window ends; either job thread is held at every line of the claim code"""
    out = []
    for aac in ((0, 0), (1, 0), (0, 1), (1, 1)):
        for (idA, idB) in ((2, 1), (1, 2)):
            for dB in ((0.245, 0.249, 0.2495, 0.251) if tier == 'quick' else (0.0, 0.1, 0.243, 0.245, 0.247, 0.249, 0.2495, 0.25, 0.251, 0.4)):
                base = {'cas': [{'idn': idA, 'aac': aac[0], 'addr': 128, 'delay': 0.0},
                                {'idn': idB, 'aac': aac[1], 'addr': 128, 'delay': dB}], 'base_lat': 1e-3}
                for stack in (0, 1):
                    out.append(('preempt', base, stack, seed))
    return out


def run(tier, seed):
    items = [(sc, b, seed) for (sc, b) in configs(tier)]
    # group cheap bound-0 scenarios into chunks to keep IPC low
    items.sort(key=lambda it: -it[1])
    return run_check(PROP, tier, seed, 'exploration', [[it] for it in preempt_items(tier, seed)] + chunked(items), worker_chunk, RULE, ASSUME,
                     bounds={'deviation_bound': 1 if tier == 'quick' else 2})


def chunked(items, n=40):
    heavy = [[it] for it in items if it[1] > 0]
    light = [it for it in items if it[1] == 0]
    return heavy + [light[i:i + n] for i in range(0, len(light), n)]


def worker_chunk(chunk):
    total = None
    for it in chunk:
        a = worker(it)
        if total is None:
            total = a
        else:
            total.evals += a.evals
            total.nontrivial |= a.nontrivial
            total.outcomes |= a.outcomes
            total.violations.extend(a.violations)
    return total


def replay(rec, prop=PROP, probes=False):
    points, probs, outcome, trace, _n = run_one(rec['scenario'], [tuple(c) for c in (rec['choices'] or [])],
                                                rec.get('seed', 0), keep=True, probes=probes)
    print("\n".join(trace))
    if probs:
        print("REPRODUCED: " + "; ".join(probs[:5]))
        print("VIOLATION property=%s replay=(this file)" % prop)
        return 1
    print("no violation on this tree")
    return 0
