"""Transport scenarios shared by C01 C02 C06 C08 C09 C10: build a network of real stacks from
a plain-data scenario description, submit messages, run, and judge deliveries against the
`delivery` reference model (DESIGN.md 2.6)."""
from . import rt
from .net import Bus, Stack, Rec, Peer, payload, j1939
from .canon import containers

PF_P2P = 0xD0        # an ordinary PDU1 parameter group
PF_PDU2 = 0xFE       # an ordinary PDU2 parameter group
TP_LIMIT = {'j1939-21': 8, 'j1939-22': 60}
SEG = {'j1939-21': 7, 'j1939-22': 60}


def npackets(dll, size):
    s = SEG[dll]
    return (size + s - 1) // s


class Net:
    """scenario = {
         'dll': 'j1939-21'|'j1939-22',
         'stacks': [{'name','cas':[addr..],'win':int, 'kw':{...ecu kwargs}}],
         'base_lat': float, 'lat_grid': [..]|None, 'wake_grid': [..]|None, 'eps_wake': float
       }"""

    def __init__(self, sc, prefix=(), trace_factory=None):
        self.sc = sc
        self.chooser = rt.Chooser(prefix)
        self.w = rt.World(self.chooser, eps_wake=sc.get('eps_wake', 50e-6),
                          wake_grid=sc.get('wake_grid'), trace_factory=trace_factory)
        rt.activate(self.w)
        self.bus = Bus(self.w, base_lat=sc.get('base_lat', 1e-3), lat_grid=sc.get('lat_grid'))
        self.bus.send_cost = sc.get('send_cost', 0.0)
        self.bus.send_visible = sc.get('send_visible', 1.0)
        self.rec = Rec(self.w)
        self.stacks = []
        self.owner = {}          # address -> (stack index, ca)
        self.listeners = []      # (tag, stack index, address or None)
        dll = sc.get('dll', 'j1939-21')
        self.dll = dll
        for i, sd in enumerate(sc['stacks']):
            kw = dict(sd.get('kw', {}))
            st = Stack(self.bus, sd['name'], dll=dll, max_cmdt_packets=sd.get('win', 1), **kw)
            st.zero_ts = bool(sc.get('zero_ts'))
            st.ts_offset = sc.get('ts_offset', 0.0)
            if sc.get('rx_threads'):
                st.start_rx_thread()     # frames are handled on a controlled receive thread (its send calls may block)
            self.stacks.append(st)
            for a in sd['cas']:
                ca = st.add_ca(a, name_value=0x1000 + a)
                self.owner[a] = (i, ca)
                tag = '%s.ca%02X' % (sd['name'], a)
                ca.subscribe(self.rec.cb(tag))
                self.listeners.append((tag, i, a))
            tag = '%s.ecu' % sd['name']
            st.ecu.subscribe(self.rec.cb(tag))
            self.listeners.append((tag, i, None))
        self.w.run_for(0.010)    # let every job thread reach its first wait
        for st in self.stacks:
            st.idle_ref = containers(st.ecu.j1939_dll)
        self.sent = []           # (msg, accepted, frames_before, frames_after)

    # ---- submitting
    def submit(self, m, seed=0):
        """m = {'src': addr, 'kind': 'p2p'|'bam1'|'bam2', 'dst': addr|ge, 'size': n,
                'pat': 0|1|2, 'prio': 0..7, 'dp': 0|1}"""
        i, ca = self.owner[m['src']]
        data = payload(m['size'], m.get('pat', 0), seed + m['src'])
        pf, ps = self.pfps(m)
        before = len(self.bus.log)
        if 'tl' in m or 'ff' in m:
            r = ca.send_pgn(m.get('dp', 0), pf, ps, m.get('prio', 6), list(data), time_limit=m.get('tl', 0),
                            frame_format=m.get('ff', 3))
        else:
            r = ca.send_pgn(m.get('dp', 0), pf, ps, m.get('prio', 6), list(data))
        m = dict(m, t_submit=self.w.now)
        self.sent.append((m, r, before, len(self.bus.log), data))
        return r

    @staticmethod
    def pfps(m):
        if m['kind'] == 'p2p':
            return m.get('pf', PF_P2P), m['dst']
        if m['kind'] == 'bam1':
            return m.get('pf', PF_P2P), 255
        return m.get('pf', PF_PDU2), m['dst']

    # ---- reference model of deliveries
    def expected(self):
        """multiset {listener tag: [(pgn, sa, payload)]} from the accepted messages"""
        exp = {tag: [] for (tag, _i, _a) in self.listeners}
        for (m, r, _b, _a, data) in self.sent:
            if r is False or m.get('ff', 3) != 3:
                continue                       # refused, or base-format frame (the stack does not receive FBFF)
            si, _ca = self.owner[m['src']]
            pf, ps = self.pfps(m)
            dp = m.get('dp', 0)
            if m['kind'] == 'p2p':
                pgn = (dp << 16) | (pf << 8)
                if m['dst'] not in self.owner:
                    continue
                di, _ = self.owner[m['dst']]
                if di == si:
                    continue
                for (tag, i, a) in self.listeners:
                    if i == di and (a is None or a == m['dst']):
                        exp[tag].append((pgn, m['src'], bytes(data)))
            else:
                pgn = (dp << 16) | (pf << 8) | (ps if pf >= 240 else 0)
                for (tag, i, a) in self.listeners:
                    if i != si:
                        exp[tag].append((pgn, m['src'], bytes(data)))
        return exp

    def observed(self):
        obs = {tag: [] for (tag, _i, _a) in self.listeners}
        for (tag, _t, _prio, pgn, sa, data) in self.rec.items:
            obs[tag].append((pgn, sa, data))
        return obs

    def judge_deliveries(self, tolerate_ack=True):
        """returns a list of problem strings (empty = delivery multiset agrees with the model)"""
        probs = []
        exp = self.expected()
        obs = self.observed()
        # end-of-message acknowledgements reported to the originator's listeners: tolerated,
        # at most one per accepted connection-mode transfer and listener
        ack_budget = {}
        if tolerate_ack:
            limit = TP_LIMIT[self.dll]
            for (m, r, _b, _a, data) in self.sent:
                if r is not False and m['kind'] == 'p2p' and m['size'] > limit and m['dst'] in self.owner:
                    si, _ = self.owner[m['src']]
                    pgn = (m.get('dp', 0) << 16) | (self.pfps(m)[0] << 8)
                    for (tag, i, a) in self.listeners:
                        if i == si and (a is None or a == m['src']):
                            ack_budget.setdefault((tag, pgn, m['dst']), []).append(m['size'])
        for tag in exp:
            e = sorted(exp[tag])
            o = []
            for (pgn, sa, data) in obs[tag]:
                k = (tag, pgn, sa)
                sz = self._ack_size(data, pgn)
                if sz is not None and sz in ack_budget.get(k, ()):
                    ack_budget[k].remove(sz)
                    continue
                o.append((pgn, sa, data))
            o.sort()
            if e != o:
                miss = _msdiff(e, o)
                extra = _msdiff(o, e)
                probs.append("%s: missing %s unexpected %s" % (
                    tag, [_brief(x) for x in miss[:3]], [_brief(x) for x in extra[:3]]))
        return probs

    def _ack_size(self, data, pgn):
        """message size acknowledged by an end-of-message acknowledgement for `pgn` (exact frame image), else None"""
        if not self._is_ack(data):
            return None
        seg = SEG[self.dll]
        if self.dll == 'j1939-21':
            size = data[1] | (data[2] << 8)
            ok = data[3] == (size + seg - 1) // seg and data[4] == 0xFF and (data[5] | (data[6] << 8) | (data[7] << 16)) == pgn
        else:
            size = data[1] | (data[2] << 8) | (data[3] << 16)
            nseg = data[4] | (data[5] << 8) | (data[6] << 16)
            ok = nseg == (size + seg - 1) // seg and (data[9] | (data[10] << 8) | (data[11] << 16)) == pgn
        return size if ok else None

    def _is_ack(self, data):
        if self.dll == 'j1939-21':
            return len(data) == 8 and data[0] == 19
        return len(data) == 12 and (data[0] & 0xF) == 3 and data[7] == 0xFF and data[8] == 0xFF

    # ---- other verdict helpers
    def job_problems(self):
        probs = []
        if self.bus.storm:
            probs.append("frame storm: more than %d frames on the bus" % self.bus.cap)
        for lt in self.w.threads:
            if lt.kind == 'P' and lt.exc is not None:
                probs.append("application thread %s died: %s" % (lt.name, lt.exc_type))
        for st in self.stacks:
            lt = st.job
            if lt.exc is not None:
                last = lt.exc.strip().split('\n')
                where = [l.strip() for l in last if l.strip().startswith('File')]
                probs.append("job thread of %s dead: %s at %s" % (
                    st.name, lt.exc_type, _where(where[-1]) if where else '?'))
            if st.rx_raised:
                probs.append("receive thread of %s: the handler raised %s" % (st.name, st.rx_raised[0]))
            if st.rx_lt is not None and st.rx_lt.exc is not None:
                probs.append("receive thread of %s dead: %s" % (st.name, st.rx_lt.exc_type))
        return probs

    def idle_problems(self):
        probs = []
        for st in self.stacks:
            now = containers(st.ecu.j1939_dll)
            if now != st.idle_ref:
                diff = [k for k in now if now[k] != st.idle_ref.get(k)]
                probs.append("%s not idle: containers %s differ from the idle stack" % (st.name, diff))
        return probs

    def is_idle(self, st):
        return containers(st.ecu.j1939_dll) == st.idle_ref

    def outcome(self):
        """digest material: what happened, time-free"""
        return ([(f.src, f.can_id, f.data) for f in self.bus.log],
                sorted((t, p, s, d) for (t, _ts, _pr, p, s, d) in self.rec.items))

    def trace(self):
        lines = [f.brief() for f in self.bus.log]
        for (tag, t, prio, pgn, sa, data) in self.rec.items:
            lines.append("cb %s t=%.6f pgn=%05X sa=%02X len=%d %s" % (tag, t - rt.T0, pgn, sa, len(data), data[:16].hex()))
        for lt in self.w.threads:
            if lt.exc:
                lines.append("thread %s died:\n%s" % (lt.name, lt.exc))
        return lines

    def close(self):
        self.w.shutdown()


def _msdiff(a, b):
    b = list(b)
    out = []
    for x in a:
        if x in b:
            b.remove(x)
        else:
            out.append(x)
    return out


def _brief(x):
    pgn, sa, data = x
    return "pgn=%05X sa=%02X len=%d %s" % (pgn, sa, len(data), data[:10].hex())


def _where(line):
    # 'File "/repo/j1939/j1939_21.py", line 164, in async_job_thread' -> 'j1939_21.py:async_job_thread'
    try:
        f = line.split('"')[1].split('/')[-1]
        fn = line.rsplit(' in ', 1)[1]
        return "%s:%s" % (f, fn)
    except Exception:
        return line


# --------------------------------------------------------------------------- generic driver
def fd_ctrl(fr):
    """(control, session) of an FD.TP.CM frame, else None"""
    if fr.pf == 0x4D and len(fr.data) >= 12:
        return fr.data[0] & 0xF, (fr.data[0] >> 4) & 0xF
    return None


class HoldApp:
    """trace factory: numbers the line events the application thread that submits message #msg executes inside the data link
    layer (j1939_21.py / j1939_22.py) and holds it at the chosen one"""

    def __init__(self, msg, point, hold=0.001):
        self.name = 'app%d' % msg
        self.point, self.hold = point, hold
        self.count = 0
        self.where = None

    def __call__(self, lt, idx):
        if lt.kind != 'P' or lt.name != self.name:
            return None
        me = self

        def tracer(frame, event, arg):
            fn = frame.f_code.co_filename
            if not (fn.endswith('j1939_21.py') or fn.endswith('j1939_22.py')):
                return tracer if event == 'call' else None
            if event == 'line':
                me.count += 1
                if me.count == me.point:
                    me.where = "%s:%d" % (frame.f_code.co_name, frame.f_lineno)
                    rt.CUR.hold(me.hold)
            return tracer
        return tracer


class Driver:
    """runs a transport scenario: messages submitted at the start (in 'order') or right after
    the n-th bus frame ('after': n), optional capacity probes, faults on the bus.

    extra scenario keys: 'msgs', 'order', 'drop': [idx..], 'silent': {stack name: k},
    'horizon': seconds (else computed)"""

    def __init__(self, sc, prefix=(), seed=0, trace_factory=None):
        self.sc = sc
        self.seed = seed
        self.net = Net(sc, prefix, trace_factory)
        self.probs = []
        net = self.net
        net.bus.drop = set(sc.get('drop', ()))
        for st in net.stacks:
            if st.name in sc.get('silent', {}):
                st.silent_from = sc['silent'][st.name]
        self.pending = {}
        self.on = []
        for i, m in enumerate(sc['msgs']):
            if m.get('after') is not None:
                self.pending.setdefault(m['after'], []).append(i)
            if m.get('on') is not None:
                self.on.append([i, m['on'], 0])
        if self.pending:
            net.bus.taps.append(self._tap)
        if self.on:
            net.rec.hooks.append(self._hook)

    def _tap(self, fr):
        lst = self.pending.pop(fr.idx + 1, None)    # 'after': n = once n frames are on the bus
        if lst:
            w = self.net.w
            for i in lst:
                # 'after_dt': how long after that send call started (default 10 us; with a blocking driver a larger
                # value lands in the middle of the send call)
                w.at(w.now + self.sc['msgs'][i].get('after_dt', 1e-5), lambda i=i: self._submit(i))

    def _hook(self, tag, priority, pgn, sa, data):
        """'on': {'tag': listener, 'kind': 'ack' | 'data', 'nth': k}: the application submits the message from inside
        the k-th matching subscriber callback (before that callback returns)"""
        for ent in self.on:
            i, on, seen = ent
            if on['tag'] != tag or seen < 0:
                continue
            if (on['kind'] == 'ack') != self.net._is_ack(data):
                continue
            ent[2] = seen + 1
            if ent[2] == on.get('nth', 1):
                ent[2] = -1
                self._submit(i)

    def busy_reference(self, m):
        """J1939-21: is an earlier transfer on this (SA, DA) pair still in progress, judged from the bus?
        'busy' / 'grace' (ended < 20 ms ago: the job thread may not have removed it yet) / 'free'"""
        net = self.net
        src = m['src']
        dst = m['dst'] if m['kind'] == 'p2p' else 255
        now = net.w.now
        open_t, closed_t, left = None, None, 0
        for fr in net.bus.log:
            if fr.pf == 0xEC and len(fr.data) == 8:
                c = fr.data[0]
                if dst != 255:
                    if c == 16 and fr.sa == src and fr.ps == dst:
                        open_t, closed_t = fr.t, None
                    elif c in (19, 255) and fr.sa == dst and fr.ps == src and open_t is not None:
                        open_t, closed_t = None, fr.t
                    elif c == 255 and fr.sa == src and fr.ps == dst and open_t is not None:
                        open_t, closed_t = None, fr.t
                elif c == 32 and fr.sa == src and fr.ps == 255:
                    open_t, closed_t, left = fr.t, None, fr.data[3]
            elif fr.pf == 0xEB and dst == 255 and fr.sa == src and fr.ps == 255 and open_t is not None:
                left -= 1
                if left <= 0:
                    open_t, closed_t = None, fr.t
        if open_t is not None:
            return 'busy'
        if closed_t is not None and now - closed_t < 0.02:
            return 'grace'
        return 'free'

    def _submit(self, i):
        if (self.sc.get('rx_threads') or self.sc.get('app_threads')) and self.net.w.cur is None:
            # with controlled receive threads the application is a controlled thread too: its send call may block
            # without stopping the world
            self.net.w.spawn(self._submit_now, (i,), name='app%d' % i)
        else:
            self._submit_now(i)

    def _submit_now(self, i):
        m = self.sc['msgs'][i]
        net = self.net
        if m.get('may_refuse'):
            limit = TP_LIMIT[net.dll]
            if net.dll == 'j1939-21':
                ref = self.busy_reference(m) if m['size'] > limit else 'free'
            else:
                e = self.capacity_expectation(m)
                ref = 'free' if e is True else 'busy' if e is False else 'grace'
            f0 = len(net.bus.log)
            r = net.submit(m, self.seed)
            if r is False and ref == 'free':
                self.probs.append("send_pgn refused a message although no earlier transfer is in progress on that pair / sessions are free")
            if r is False and len(net.bus.log) != f0:
                self.probs.append("refused send_pgn emitted %d frame(s)" % (len(net.bus.log) - f0))
            return
        if m.get('probe'):
            exp = self.capacity_expectation(m)
            r = net.submit(m, self.seed)
            mm, rr, before, after, data = net.sent[-1]
            if exp is False and r is not False:
                self.probs.append("capacity: send_pgn returned %r with all %s sessions of the stack in flight"
                                  % (r, 'RTS/CTS' if m['kind'] == 'p2p' else 'BAM'))
            if exp is True and r is not True:
                self.probs.append("capacity: send_pgn returned %r although sessions are free" % (r,))
            if r is False and after != before:
                self.probs.append("refused send_pgn emitted %d frame(s)" % (after - before))
        else:
            net.submit(m, self.seed)

    def capacity_expectation(self, m):
        """J1939-22 reference count of the originator stack's own sessions in flight, from the
        bus: False = must refuse, True = must accept, None = either (clean-up grace)."""
        net = self.net
        if net.dll != 'j1939-22' or m['size'] <= 60:
            return None
        si, _ = net.owner[m['src']]
        own = set(a for a, (i, _c) in net.owner.items() if i == si)
        now = net.w.now
        want_bam = m['kind'] != 'p2p'
        open_s = {}
        recent = 0
        for fr in net.bus.log:
            c = fd_ctrl(fr)
            if c is None:
                continue
            ctrl, sess = c
            if not want_bam:
                if ctrl == 0 and fr.sa in own:
                    open_s[(sess, fr.sa, fr.ps)] = fr.t
                elif ctrl in (3, 15) and fr.ps in own and (sess, fr.ps, fr.sa) in open_s and not fr.lost:
                    del open_s[(sess, fr.ps, fr.sa)]
                    if now - fr.t < 0.02:
                        recent += 1
                elif ctrl == 15 and fr.sa in own and (sess, fr.sa, fr.ps) in open_s:
                    del open_s[(sess, fr.sa, fr.ps)]
                    if now - fr.t < 0.02:
                        recent += 1
            else:
                if ctrl == 4 and fr.sa in own:
                    open_s[(sess, fr.sa)] = fr.t
                elif ctrl == 2 and fr.ps == 255 and fr.sa in own and (sess, fr.sa) in open_s:
                    del open_s[(sess, fr.sa)]
                    if now - fr.t < 0.02:
                        recent += 1
        cap = 4 if want_bam else 8
        if len(open_s) >= cap:
            return False
        if len(open_s) + recent < cap:
            return True
        return None

    def horizon(self):
        if 'horizon' in self.sc:
            return self.sc['horizon']
        dll = self.net.dll
        n = 1
        for m in self.sc['msgs']:
            k = npackets(dll, m['size'])
            n = max(n, k * 12 if m['kind'] != 'p2p' else k)
        per = 0.006
        return 0.5 + n * per + (1.6 if dll == 'j1939-21' else 3.4)

    def run(self):
        sc = self.sc
        net = self.net
        order = sc.get('order') or list(range(len(sc['msgs'])))
        for i in order:
            if sc['msgs'][i].get('after') is None and sc['msgs'][i].get('on') is None:
                if sc['msgs'][i].get('at'):
                    net.w.at(net.w.now + sc['msgs'][i]['at'], lambda i=i: self._submit(i))     # 'at': seconds after the start
                else:
                    self._submit(i)
        net.w.run_for(self.horizon())
        if self.pending and not sc.get('late_ok'):
            self.probs.append("HARNESS: %d submissions never triggered" % len(self.pending))
        return self

    def standard_problems(self):
        net = self.net
        probs = list(self.probs)
        limit = TP_LIMIT[net.dll]
        for (m, r, _b, _a, _d) in net.sent:
            if not m.get('probe') and not m.get('may_refuse') and r is not True and m['size'] > limit:
                probs.append("send_pgn returned %r for a message within capacity" % (r,))
        probs += net.judge_deliveries()
        probs += net.job_problems()
        probs += net.idle_problems()
        return probs


def sig_of(probs):
    """stable class of the first problem (volatile payload details stripped)"""
    p = probs[0]
    if 'missing' in p and 'unexpected' in p:
        kind = []
        if 'missing []' not in p:
            kind.append('message not delivered intact')
        if 'unexpected []' not in p:
            kind.append('unexpected delivery')
        return 'delivery: ' + ' + '.join(kind)
    if 'not idle' in p:
        return p.split(':')[0]
    return p
