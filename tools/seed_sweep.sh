#!/bin/bash
# quick tier of every check for a range of VERIF_SEED values; prints only runs that are not silent
cd /verif
for seed in ${@:-1 2 3 4 5 6 7 8 9 10 11 12}; do
  for c in C01 C02 C03 C04 C05 C06 C07 C08 C09 C10 C11 C12 C13 C14 C15 C16 C17 C18 C19; do
    out=$(VERIF_SEED=$seed ./check $c --tier quick 2>&1); rc=$?
    if [ $rc != 0 ]; then echo "seed=$seed $c rc=$rc"; echo "$out" | grep -E "what:|HARNESS" | sort | uniq -c | head -5; fi
  done
  echo "seed $seed done"
done
