"""C13 - a controller application sends application data only from an address it holds.
Every claim state visited by the C04 scenarios is probed in place at every send entry point
(bus in capture mode, so the probe does not perturb the run).  DESIGN.md section 4 / C13."""
from ..explore import explore, trim
from ..runner import Acc, run_check
from . import c04

PROP = 'C13'


def worker(chunk):
    if chunk and chunk[0] == 'inflight':
        return inflight_worker(chunk)
    if chunk and chunk[0] == 'preempt':
        return c04.preempt_worker(tuple(chunk) + (True, csig))
    if chunk and chunk[0] == 'loss_in_cb':
        from . import c16
        return c16.loss_in_callback_worker(chunk)
    acc = Acc()
    for (sc, bound, seed) in chunk:
        def run(prefix):
            points, probs, outcome, _, nprobes = c04.run_one(sc, prefix, seed, probes=True)
            return points, (probs, outcome, nprobes)

        for choices, ndev, (probs, outcome, nprobes) in explore(run, bound):
            acc.case((repr(sorted(sc.items())), trim(choices)), nontrivial=len(set(outcome[1])) > 1 or len(outcome[0]) > len(sc['cas']),
                     outcome=outcome)
            acc.add('entry_point_probes', nprobes)
            if probs:
                acc.violation(csig(probs), sc, trim(choices), probs[:4])
    acc.sample({'scenario': chunk[0][0], 'deviation_bound': chunk[0][1],
                'probe': 'every entry point, for every CA, 10 us and 6 ms after every bus frame and every 125 ms'})
    return acc


def inflight_one(dll, kind, aac, k, keep=False):
    """a transfer is in flight when the CA loses its address (a lower NAME claims it right after the k-th bus frame): from the
    moment that claim has been handed to the stack, nothing but address-claim frames may leave it with the lost source address"""
    from .. import rt
    from ..net import Bus, Stack, payload
    w = rt.World()
    rt.activate(w)
    try:
        bus = Bus(w, base_lat=1e-3)
        X = Stack(bus, 'X', dll=dll, max_cmdt_packets=1)
        Y = Stack(bus, 'Y', dll=dll, max_cmdt_packets=1)
        cx = X.add_ca(0x80, name_value=(aac << 63) | 0x5000)
        cy = Y.add_ca(0x20, name_value=0x6000)
        seg = 7 if dll == 'j1939-21' else 60
        w.run_for(0.01)
        claim = ((6 << 26) | (0xEE << 16) | (0xFF << 8) | 0x80, bytes([1, 0, 0, 0, 0, 0, 0, 0]), False)
        if k is not None:
            bus.inject[k] = [claim]
        data = list(payload(seg * 5 - 2, 0, 3))
        if kind == 'bam':
            cx.send_pgn(0, 0xFE, 0x31, 6, data)
        elif kind == 'out':
            cx.send_pgn(0, 0xD0, 0x20, 6, data)
        else:
            cy.send_pgn(0, 0xD0, 0x80, 6, data)
        w.run_for(4.5)
        probs = []
        lost_at = None
        for f in bus.log:
            if f.injected:
                got = [t for (t, idx) in X.rx_log if idx == f.idx]
                lost_at = got[0] if got else None
        if k is not None and lost_at is None:
            probs.append("HARNESS: the contending claim was not delivered")
        if lost_at is not None:
            for f in bus.log:
                if f.src == 'X' and f.sa == 0x80 and f.pf != 0xEE and f.t > lost_at + 1e-9:
                    probs.append("a %s frame (PF %02X) left the stack from address 128 %.0f ms after its CA had lost that address to a lower NAME"
                                 % ('transport' if f.pf in (0xEC, 0xEB, 0x4D, 0x4E) else 'data', f.pf, (f.t - lost_at) * 1e3))
                    break
        if X.job.exc is not None:
            probs.append("job thread of X dead: %s" % X.job.exc_type)
        return len(bus.log), probs, [f.brief() for f in bus.log] if keep else None
    finally:
        w.shutdown()


def inflight_worker(item):
    _k, dll, kind, aac, seed = item
    acc = Acc()
    n, probs, _ = inflight_one(dll, kind, aac, None)
    if probs:
        acc.violation("HARNESS: in-flight baseline not clean", {'part': 'inflight', 'dll': dll, 'kind': kind}, None, probs[:2])
        return acc
    for k in range(0, n - 1):
        _n, probs, _ = inflight_one(dll, kind, aac, k)
        sc = {'part': 'transfer in flight when the address is lost', 'dll': dll, 'kind': kind, 'aac': aac, 'after_frame': k}
        acc.case(repr(sc), nontrivial=True, outcome=(dll, kind, aac, bool(probs)))
        if probs:
            import re
            acc.violation(re.sub(r'\d+ ms', 'N ms', re.sub(r'PF [0-9A-F]+', 'PF ..', probs[0])), sc, None, probs[:3])
    acc.sample({'part': 'transfer in flight when the address is lost', 'dll': dll, 'kind': kind, 'aac': aac, 'frames': n})
    return acc


def csig(probs):
    import re
    return re.sub(r'\(state \d\)', '', re.sub(r'address \d+', 'address N', probs[0])).strip()


def scenarios(tier):
    quick = tier == 'quick'
    items = []
    for (sc, bound) in c04.configs(tier):
        n = len(sc['cas'])
        if bound == 0 and any(c.get('bypass') for c in sc['cas']):
            if n == 2 or not quick:
                items.append((sc, 0))         # a bypassed, started CA contended by the others
            continue
        if bound == 0:
            # uniform-latency families: keep the contended ones on a thinner delay grid
            dl = tuple(c['delay'] for c in sc['cas'])
            if quick and (n > 2 or any(d in (0.1, 0.4) for d in dl)):
                if not (n == 3 and dl in ((0.0, 0.0, 0.0), (0.0, 0.249, 0.7), (0.7, 0.0, 0.251)) and sc['base_lat'] in (1e-3, 0.0)):
                    continue
            items.append((sc, 0))
        else:
            if quick and n > 2:
                continue
            items.append((sc, 1))
    # claiming bypassed and started, then contended (the C04 families with a bypassed CA are included above when bound == 0)
    # claiming bypassed, and never started
    for aac in (0, 1):
        sc = {'cas': [{'idn': 1, 'aac': aac, 'addr': 128, 'delay': 0.0, 'never': True}, {'idn': 2, 'aac': aac, 'addr': 129, 'delay': 0.0}],
              'base_lat': 1e-3}
        items.append((sc, 0))
    return items


RULE = ("the C04 scenario families (2..3 CAs, NAME orderings, AAC or fixed, equal / adjacent / distinct addresses, claim delays, "
        "uniform latencies; 2-CA families with every single latency / wake deviation; the job thread of either ECU held at every source "
        "line of the claim code while the contending claim is handled); in every run every CA is probed at "
        "8 send entry points (send_pgn PDU1 / PDU2, send_message, send_request ordinary / ADDRESSCLAIM, DM22 request, DM1 send, "
        "DM14 request) 10 us and 6 ms after every bus frame and every 125 ms; non-trivial if the CAs' final states differ or "
        "a contention took place")
ASSUME = ["'holds no address' = the CA's public state is not operational; additionally a reference model built from the bus "
          "(last own claim vs. later claims of lower NAMEs delivered to the stack) flags application data sent from a lost address",
          "the library's re-claim path enters the operational state on the next claim-timer tick (possibly < 250 ms): not judged here",
          "DM1 / DM14 probes call the methods the services' timers / facades call (skipped if renamed)"]


def run(tier, seed):
    items = [(sc, b, seed) for (sc, b) in scenarios(tier)]
    heavy = [[it] for it in items if it[1] > 0]
    light = [it for it in items if it[1] == 0]
    chunks = heavy + [light[i:i + 25] for i in range(0, len(light), 25)]
    # the job thread of either ECU held at every source line of the claim code while the contending claim is handled (the
    # C04 pre-emption family), probed like every other run
    for it in c04.preempt_items(tier, seed):
        if tier != 'quick' or it[1]['cas'][1]['delay'] in (0.249, 0.2495):
            chunks.append(it)
    for dll in ('j1939-21', 'j1939-22'):
        chunks.append(('loss_in_cb', dll, seed, 'C13'))      # the address is lost while the cyclic DM1 is being prepared
        for kind in ('bam', 'out', 'in'):
            for aac in (0, 1):
                chunks.append(('inflight', dll, kind, aac, seed))
    return run_check(PROP, tier, seed, 'exploration', chunks, worker, RULE, ASSUME,
                     bounds={'deviation_bound': 1})


def replay(rec):
    sc = rec['scenario']
    if sc.get('part') == 'address lost during the DM1 data callback':
        from . import c16
        a0 = c16.loss_in_callback_worker(('loss_in_cb', sc['dll'], rec.get('seed', 0), 'C13'))
        mine = [v for v in a0.violations if v['scenario'] == sc]
        if mine:
            print("REPRODUCED: " + "; ".join(mine[0]['detail']))
            print("VIOLATION property=%s replay=(this file)" % PROP)
            return 1
        print("no violation on this tree")
        return 0
    if sc.get('part'):
        n, probs, trace = inflight_one(sc['dll'], sc['kind'], sc['aac'], sc['after_frame'], keep=True)
        print("\n".join(trace))
        if probs:
            print("REPRODUCED: " + "; ".join(probs[:3]))
            print("VIOLATION property=%s replay=(this file)" % PROP)
            return 1
        print("no violation on this tree")
        return 0
    return c04.replay(rec, PROP, probes=True)
