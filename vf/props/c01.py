"""C01 - J1939-21 transport delivers every accepted message intact, exactly once.
DESIGN.md section 4 / C01."""
import itertools

from .. import rt
from ..explore import explore, trim
from ..runner import Acc, run_check
from ..scen import Net, npackets

PROP = 'C01'
DLL = 'j1939-21'
LATS = [1e-3, 0.0, 0.2e-3, 5e-3]
WAKES = [50e-6, 1e-3, 5e-3]
BOUNDARY = [0, 1, 7, 8, 9, 13, 14, 15, 16, 20, 21, 22, 27, 28, 29, 35, 36, 49, 50, 63, 64, 70, 71,
            100, 255, 256, 257, 511, 512, 1000, 1778, 1779, 1784, 1785]
WINS = [1, 2, 3, 7, 255]


def stacks3(wa=1, wb=1, wc=1):
    return [{'name': 'A', 'cas': [0x10, 0x11], 'win': wa},
            {'name': 'B', 'cas': [0x20, 0x21], 'win': wb},
            {'name': 'C', 'cas': [0x30], 'win': wc}]


def stacks4():
    return stacks3(2, 3, 255) + [{'name': 'D', 'cas': [0x40], 'win': 1}]


def lat_grid(base):
    return [base] + [x for x in LATS if x != base]


def horizon(sc):
    n = 1
    for m in sc['msgs']:
        k = npackets(DLL, m['size'])
        if m['kind'] != 'p2p':
            n = max(n, k * 12)          # 50 ms pacing + wake latency
        else:
            n = max(n, k)
    return 0.5 + n * 0.006 + 1.6


def run_one(sc, prefix=(), seed=0, keep=False):
    from ..scen import Driver, HoldApp
    hold = HoldApp(sc['preempt_app']['msg'], sc['preempt_app']['point']) if sc.get('preempt_app') else None
    d = Driver(sc, prefix, seed, trace_factory=hold)
    try:
        d.run()
        probs = d.standard_problems()
        if hold is not None:
            sc['_line_events'] = hold.count
        probs = [p.replace('within capacity', 'on a free (SA,DA) pair') for p in probs]
        return d.net.chooser.points, probs, d.net.outcome(), d.net.trace() if keep else None
    finally:
        d.net.close()


def sig_of(probs):
    p = probs[0]
    # stable class: strip volatile payload details
    for key in ('job thread', 'not idle', 'send_pgn returned', 'missing'):
        if key in p:
            if key == 'missing':
                kind = []
                if 'missing []' not in p:
                    kind.append('message not delivered intact')
                if 'unexpected []' not in p:
                    kind.append('unexpected delivery')
                return 'delivery: ' + ' + '.join(kind)
            return p if key == 'job thread' else p.split(':')[0] if key == 'not idle' else p
    return p


def concurrent_worker(item):
    """two application threads call send_pgn at the same time (different pairs); the first one is suspended for 1 ms at every
    source line it executes inside the data link layer while the second call runs"""
    _k, base, seed = item
    acc = Acc()
    counts = []
    for _ in range(2):
        sc0 = dict(base, preempt_app={'msg': 0, 'point': 0})
        run_one(sc0, (), seed)
        counts.append(sc0.get('_line_events'))
    if not counts[0] or counts[0] != counts[1]:
        acc.violation("HARNESS: line-event numbering of the application thread not reproducible", base, None, [repr(counts)])
        return acc
    for pt in range(1, counts[0] + 1):
        sc = dict(base, preempt_app={'msg': 0, 'point': pt})
        points, probs, outcome, _ = run_one(sc, (), seed)
        sc.pop('_line_events', None)
        acc.case(sc_key(sc), nontrivial=True, outcome=outcome)
        if probs:
            acc.violation(sig_of(probs), sc, None, probs[:4])
    acc.sample({'scenario': base, 'line_events': counts[0]})
    return acc


def worker(item):
    if item[0] == 'concurrent':
        return concurrent_worker(item)
    sc, bound, seed = item
    acc = Acc()
    kinds = set(sc.get('dev_kinds', ['lat', 'wake']))

    def run(prefix):
        points, probs, outcome, _ = run_one(sc, prefix, seed)
        return points, (probs, outcome)

    for choices, ndev, (probs, outcome) in explore(run, bound, kinds):
        multi = any(m['size'] > 8 for m in sc['msgs'])
        acc.case((sc_key(sc), trim(choices)), nontrivial=multi, outcome=outcome)
        if probs:
            acc.violation(sig_of(probs), sc, trim(choices), probs[:4])
    acc.sample({'scenario': sc, 'deviation_bound': bound, 'executions': acc.evals})
    return acc


def sc_key(sc):
    return repr(sorted(sc.items()))


def msg(src, kind, dst, size, pat=0, prio=6, dp=0):
    return {'src': src, 'kind': kind, 'dst': dst, 'size': size, 'pat': pat, 'prio': prio, 'dp': dp}


def scenarios(tier):
    items = []
    quick = tier == 'quick'
    # (a) every size on the default schedule and on each uniform latency, p2p and broadcast
    sizes = BOUNDARY if quick else list(range(0, 1786))
    for size in sizes:
        big = size > 300
        for base in (LATS if (not big or not quick) else [1e-3, 0.0]):
            wins = [(1, 1), (2, 3), (3, 2), (7, 255), (255, 1), (255, 255)] if not big else [(255, 7), (3, 255)]
            if not quick and not big:
                wins = [(a, b) for a in WINS for b in WINS] if size in BOUNDARY else wins
            if not quick and big and size not in BOUNDARY:
                wins = [(255, 7)] if base == 1e-3 else []
            for (wa, wb) in wins:
                sc = {'dll': DLL, 'stacks': stacks3(wa, wb), 'base_lat': base,
                      'msgs': [msg(0x10, 'p2p', 0x20, size, pat=size % 3, dp=size % 2)]}
                items.append((sc, 0))
            if not big or base in (1e-3, 0.0):
                if quick or size in BOUNDARY or base == 1e-3:
                    for kind, dst in (('bam1', 255), ('bam2', 0x10)):
                        if big and kind == 'bam1' and quick:
                            continue
                        sc = {'dll': DLL, 'stacks': stacks3(), 'base_lat': base,
                              'msgs': [msg(0x10, kind, dst, size, pat=(size + 1) % 3, dp=size % 2)]}
                        items.append((sc, 0))
    # (b) concurrent message sets, both directions, two CAs of one stack to the same DA,
    #     deviation-bounded over per-frame latencies and per-wait wake latencies
    sets = [
        [msg(0x10, 'p2p', 0x20, 20), msg(0x20, 'p2p', 0x10, 15)],
        [msg(0x10, 'p2p', 0x20, 22), msg(0x11, 'p2p', 0x20, 9)],
        [msg(0x10, 'p2p', 0x20, 14), msg(0x10, 'bam2', 0x33, 17)],
        [msg(0x10, 'p2p', 0x20, 30), msg(0x20, 'p2p', 0x30, 21), msg(0x30, 'p2p', 0x10, 16)],
        [msg(0x10, 'bam2', 0x01, 15), msg(0x20, 'bam2', 0x01, 16), msg(0x30, 'bam1', 255, 9)],
        [msg(0x10, 'p2p', 0x20, 21), msg(0x20, 'p2p', 0x10, 8), msg(0x21, 'p2p', 0x11, 36),
         msg(0x30, 'bam2', 0x44, 12)],
        [msg(0x10, 'p2p', 0x30, 43, dp=1), msg(0x11, 'p2p', 0x21, 10, prio=3), msg(0x20, 'bam1', 255, 23)],
        [msg(0x10, 'p2p', 0x20, 8), msg(0x11, 'p2p', 0x20, 0), msg(0x20, 'bam1', 255, 5),
         msg(0x30, 'p2p', 0x10, 9)],
    ]
    winsets = [(1, 1, 1), (2, 3, 255)] if quick else [(1, 1, 1), (2, 3, 255), (255, 1, 2), (3, 3, 3), (7, 2, 1)]
    for ms in sets:
        orders = [None, list(reversed(range(len(ms))))]
        if not quick:
            orders = [None] + [list(p) for p in itertools.permutations(range(len(ms)))][1:6]
        for wins in winsets:
            for base in LATS:
                for order in orders:
                    sc = {'dll': DLL, 'stacks': stacks3(*wins), 'base_lat': base, 'lat_grid': lat_grid(base),
                          'wake_grid': WAKES, 'msgs': ms}
                    if order:
                        sc['order'] = order
                    items.append((sc, 1))
    # (e) every party on a thread of its own (controlled receive threads, application threads) with a blocking driver whose
    #     frame is on the bus when the call returns (1.0) or at once, the call returning later (0.0): replies are handled
    #     while the sending call - of the application, the job thread or the receive thread - has not returned yet
    for ms in sets + [[msg(0x10, 'p2p', 0x20, 9)], [msg(0x10, 'p2p', 0x20, 100)], [msg(0x10, 'bam2', 0x31, 16)]]:
        for wins in [(1, 1, 1), (2, 3, 255), (255, 255, 255)]:
            for base in (0.2e-3, 1e-3):
                for cost in (0.3e-3, 2e-3):
                    for vis in (0.0, 1.0):
                        sc = {'dll': DLL, 'stacks': stacks3(*wins), 'base_lat': base, 'send_cost': cost, 'send_visible': vis,
                              'rx_threads': True, 'msgs': ms}
                        items.append((sc, 0))
    # (c) a second message submitted right after the n-th bus frame of the first, for every n: same pair (may be refused
    #     while the first is in progress, must be delivered if accepted), other pair of the same source, BAM / RTS-CTS mixes
    for (m1, m2) in [(msg(0x10, 'p2p', 0x20, 20), msg(0x10, 'p2p', 0x20, 15)),
                     (msg(0x10, 'p2p', 0x20, 16), msg(0x10, 'p2p', 0x21, 22)),
                     (msg(0x10, 'bam2', 0x31, 16), msg(0x10, 'bam2', 0x32, 23)),
                     (msg(0x10, 'bam2', 0x31, 16), msg(0x10, 'p2p', 0x20, 23)),
                     (msg(0x10, 'p2p', 0x20, 23), msg(0x10, 'bam1', 255, 9)),
                     (msg(0x10, 'p2p', 0x20, 20), msg(0x20, 'p2p', 0x10, 15))]:
        for wins in [(1, 1, 1), (2, 3, 255)]:
            for base in (LATS if not quick else [1e-3, 0.0]):
                for n in range(1, 15):
                    sc = {'dll': DLL, 'stacks': stacks3(*wins), 'base_lat': base, 'late_ok': True,
                          'msgs': [m1, dict(m2, after=n, may_refuse=True)]}
                    items.append((sc, 0))
                    if base == 1e-3:
                        # the same with a blocking driver: the second call lands while the sender is inside send_message
                        items.append((dict(sc, send_cost=0.0003), 0))
    # a slow blocking driver (5 ms per frame): one window of 255 packets keeps the job thread inside one pass for longer than
    # the longest protocol timeout
    for size in (1785, 1779):
        sc = {'dll': DLL, 'stacks': stacks3(255, 255, 1), 'base_lat': 1e-3, 'send_cost': 0.005,
              'msgs': [msg(0x10, 'p2p', 0x20, size)], 'horizon': 8.0}
        items.append((sc, 0))
    # ... and a window that ends in the middle of the message after more than T3 inside one pass (the responder grants 128 /
    # 200 of 255 packets, 10 / 6.5 ms per frame): the time-out for the next CTS runs from the window's last packet
    for (win_b, cost, size) in ((128, 0.010, 1785), (200, 0.0065, 1785), (128, 0.010, 1000)):
        sc = {'dll': DLL, 'stacks': stacks3(255, win_b, 1), 'base_lat': 1e-3, 'send_cost': cost,
              'msgs': [msg(0x10, 'p2p', 0x20, size)], 'horizon': 10.0}
        items.append((sc, 0))
    # (c2) two outgoing sessions of one stack (a long one in small windows, a short one that finishes meanwhile) and, with a
    #      blocking driver, a third message for the short one's pair right after the n-th bus frame, for every n: it lands while
    #      the job thread is held inside a send of the long session
    for base in (0.2e-3, 1e-3):
        for (cost, eps) in ((0.0003, 50e-6), (0.0003, 0.002), (0.0008, 0.001)):
            for n in range(2, 34):
                for frac in (0.03, 0.5, 0.9):
                    ms = [msg(0x10, 'p2p', 0x20, 100), msg(0x11, 'p2p', 0x30, 9),
                          dict(msg(0x11, 'p2p', 0x30, 16), after=n, after_dt=cost * frac, may_refuse=True)]
                    sc = {'dll': DLL, 'stacks': stacks3(2, 2, 255), 'base_lat': base, 'send_cost': cost, 'eps_wake': eps,
                          'late_ok': True, 'msgs': ms}
                    items.append((sc, 0))
    # (d) the application reacts from inside a callback: next message on the same pair from the callback that reports the
    #     end-of-message acknowledgement, a reply in the other direction from the delivery callback
    for wins in [(1, 1, 1), (2, 3, 255), (255, 255, 255)]:
        for base in LATS:
            for sz in (20, 21, 9):
                ms = [msg(0x10, 'p2p', 0x20, sz),
                      dict(msg(0x10, 'p2p', 0x20, sz + 3), on={'tag': 'A.ca10', 'kind': 'ack'}, may_refuse=True),
                      dict(msg(0x20, 'p2p', 0x10, sz + 5), on={'tag': 'B.ca20', 'kind': 'data'}, may_refuse=True),
                      dict(msg(0x10, 'bam2', 0x44, sz + 1), on={'tag': 'A.ecu', 'kind': 'ack'}, may_refuse=True)]
                sc = {'dll': DLL, 'stacks': stacks3(*wins), 'base_lat': base, 'msgs': ms}
                if base in (1e-3, 0.0) and sz == 20:
                    sc['lat_grid'] = lat_grid(base)
                    sc['wake_grid'] = WAKES
                items.append((sc, 1 if 'lat_grid' in sc else 0))
    if not quick:
        # bound 2 on the small two-message sets; four stacks
        for ms in sets[:3]:
            for wins in [(1, 1, 1), (2, 3, 255)]:
                for base in (1e-3, 0.0):
                    sc = {'dll': DLL, 'stacks': stacks3(*wins), 'base_lat': base, 'lat_grid': lat_grid(base),
                          'wake_grid': WAKES, 'msgs': ms}
                    items.append((sc, 2))
        ms4 = [msg(0x10, 'p2p', 0x40, 20), msg(0x40, 'p2p', 0x20, 15), msg(0x20, 'bam2', 0x05, 16),
               msg(0x30, 'p2p', 0x11, 29)]
        for base in LATS:
            sc = {'dll': DLL, 'stacks': stacks4(), 'base_lat': base, 'lat_grid': lat_grid(base),
                  'wake_grid': WAKES, 'msgs': ms4}
            items.append((sc, 1))
    return items


RULE = ("scenario = stacks x max_cmdt_packets x message set x submission order x uniform latency; every "
        "scenario is executed on the default schedule and with every single (thorough: pair of) deviation(s) "
        "of a per-(frame,receiver) latency in {0,0.2,1,5 ms} or per-wait job-thread wake latency in "
        "{0.05,1,5 ms}; a case is distinct by (scenario, choice list) and non-trivial if it contains a "
        "multi-packet transfer")
ASSUME = ["payload contents outside three patterns are not enumerated (the transport does not branch on payload bytes)",
          "latencies on a grid, not the continuum; one receive thread per stack that never re-enters itself",
          "the PGN of a PDU1 group is (data page, PF, 0): the PS byte is the destination"]


def run(tier, seed):
    items = [(sc, b, seed) for (sc, b) in scenarios(tier)]
    items.sort(key=lambda it: -(it[1] * 1000 + sum(m['size'] for m in it[0]['msgs'])))
    for (m1, m2) in [(msg(0x10, 'p2p', 0x20, 20), msg(0x10, 'p2p', 0x30, 23, pat=1)),
                     (msg(0x10, 'p2p', 0x20, 20), msg(0x11, 'p2p', 0x20, 23, pat=1)),
                     (msg(0x10, 'p2p', 0x20, 20), msg(0x11, 'bam2', 0x42, 23, pat=1)),
                     (msg(0x10, 'bam2', 0x41, 20), msg(0x11, 'bam2', 0x42, 23, pat=1)),
                     (msg(0x10, 'bam2', 0x41, 20), msg(0x10, 'p2p', 0x20, 23, pat=1))]:
        base = {'dll': DLL, 'stacks': stacks3(2, 2, 2), 'base_lat': 1e-3, 'app_threads': True,
                'msgs': [m1, dict(m2, at=0.0003)]}
        items.append(('concurrent', base, seed))
    return run_check(PROP, tier, seed, 'exploration', items, worker, RULE, ASSUME,
                     bounds={'deviation_bound': 1 if tier == 'quick' else 2, 'latency_grid_ms': [0, 0.2, 1, 5],
                             'wake_grid_ms': [0.05, 1, 5]})


def replay(rec):
    points, probs, outcome, trace = run_one(rec['scenario'], [tuple(c) for c in rec['choices']],
                                            rec.get('seed', 0), keep=True)
    print("\n".join(trace))
    if probs:
        print("REPRODUCED: " + "; ".join(probs))
        print("VIOLATION property=%s replay=(this file)" % PROP)
        return 1
    print("no violation on this tree")
    return 0
