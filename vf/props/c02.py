"""C02 - J1939-22 (FD) transport and session capacity.  DESIGN.md section 4 / C02."""
from ..explore import explore, trim
from ..runner import Acc, run_check
from ..scen import Driver, sig_of
from .c01 import msg, stacks3

PROP = 'C02'
DLL = 'j1939-22'
LATS = [1e-3, 0.2e-3, 5e-3]          # (0, 5 ms]: no re-entrant delivery on this layer
WAKES = [50e-6, 1e-3, 5e-3]


def lat_grid(base):
    return [base] + [x for x in LATS if x != base]


def run_one(sc, prefix=(), seed=0, keep=False):
    hold = None
    if sc.get('preempt_app'):
        from ..scen import HoldApp
        hold = HoldApp(sc['preempt_app']['msg'], sc['preempt_app']['point'])
    d = Driver(sc, prefix, seed, trace_factory=hold)
    try:
        d.run()
        probs = d.standard_problems()
        if hold is not None:
            sc['_line_events'] = hold.count
        return d.net.chooser.points, probs, d.net.outcome(), d.net.trace() if keep else None
    finally:
        d.net.close()


def concurrent_worker(item):
    """two application threads call send_pgn at the same time; the first one is suspended for 1 ms at every source line it
    executes inside the data link layer while the second call runs"""
    _k, base, seed = item
    acc = Acc()
    counts = []
    for _ in range(2):
        sc0 = dict(base, preempt_app={'msg': 0, 'point': 0})
        run_one(sc0, (), seed)
        counts.append(sc0.get('_line_events'))
    if not counts[0] or counts[0] != counts[1]:
        acc.violation("HARNESS: line-event numbering of the application thread not reproducible", base, None, [repr(counts)])
        return acc
    for pt in range(1, counts[0] + 1):
        sc = dict(base, preempt_app={'msg': 0, 'point': pt})
        points, probs, outcome, _ = run_one(sc, (), seed)
        sc.pop('_line_events', None)
        acc.case(repr(sorted(sc.items(), key=repr)), nontrivial=True, outcome=outcome)
        if probs:
            acc.violation(sig_of(probs), sc, None, probs[:4])
    acc.sample({'scenario': base, 'line_events': counts[0]})
    return acc


def worker(item):
    if item[0] == 'concurrent':
        return concurrent_worker(item)
    sc, bound, seed = item
    acc = Acc()

    def run(prefix):
        points, probs, outcome, _ = run_one(sc, prefix, seed)
        return points, (probs, outcome)

    for choices, ndev, (probs, outcome) in explore(run, bound, {'lat', 'wake'}):
        acc.case((repr(sorted(sc.items())), trim(choices)), nontrivial=any(m['size'] > 60 for m in sc['msgs']),
                 outcome=outcome)
        if probs:
            acc.violation(sig_of(probs), sc, trim(choices), probs[:4])
    acc.sample({'scenario': sc, 'deviation_bound': bound, 'executions': acc.evals})
    return acc


def scenarios(tier):
    quick = tier == 'quick'
    items = []
    sizes = [61, 119, 120, 121, 179, 180, 181, 599, 600, 601, 15300, 20000, 65536, 70001]
    if not quick:
        sizes = sorted(set(sizes) | set(range(61, 1001)) | {1785, 1786, 15299, 15301})
    wins_q = [(1, 1), (2, 3), (3, 2), (255, 255), (255, 1)]
    for size in sizes:
        big = size > 2000
        for base in LATS if not big else [1e-3]:
            for (wa, wb) in (wins_q if not big else [(255, 7), (16, 255)]):
                if not quick and size not in (61, 119, 120, 121, 179, 180, 181, 599, 600, 601) and (wa, wb) not in ((2, 3), (255, 255)):
                    continue
                sc = {'dll': DLL, 'stacks': stacks3(wa, wb), 'base_lat': base,
                      'msgs': [msg(0x10, 'p2p', 0x20, size, pat=size % 3, dp=size % 2)]}
                items.append((sc, 0))
            if not big or quick:
                for kind, dst in (('bam1', 255), ('bam2', 0x10)):
                    if not quick and size > 700 and kind == 'bam1':
                        continue
                    sc = {'dll': DLL, 'stacks': stacks3(), 'base_lat': base,
                          'msgs': [msg(0x10, kind, dst, size, pat=(size + 1) % 3, dp=size % 2)]}
                    items.append((sc, 0))
    # concurrent sessions: k RTS/CTS + b BAM per originator, one or both directions
    def batch(src, dsts, k, b, size0):
        ms = []
        for i in range(k):
            ms.append(msg(src, 'p2p', dsts[i % len(dsts)], size0 + 61 * i))
        for i in range(b):
            ms.append(msg(src, 'bam2', 0x10 + i, 70 + 30 * i))
        return ms
    combos = [(1, 0), (2, 1), (3, 0), (8, 0), (8, 4), (5, 2), (0, 4)] if quick else \
             [(k, b) for k in range(0, 9) for b in range(0, 5) if k + b > 0]
    for (k, b) in combos:
        for both in (False, True):
            ms = batch(0x10, [0x20, 0x30, 0x21], k, b, 61)
            if both:
                ms += batch(0x20, [0x10, 0x11], min(k, 3), min(b, 1), 100)
            for wins in [(1, 1, 1), (2, 3, 255)]:
                for base in LATS if (quick and k + b <= 3) or not quick else [1e-3]:
                    sc = {'dll': DLL, 'stacks': stacks3(*wins), 'base_lat': base, 'msgs': ms}
                    bound = 0
                    if k + b <= 3:
                        sc['lat_grid'] = lat_grid(base)
                        sc['wake_grid'] = WAKES
                        bound = 1 if quick else 2
                    items.append((sc, bound))
    # every party on a thread of its own (controlled receive threads, application threads) with a blocking driver whose frame
    # is on the bus when the call returns (1.0) or at once, the call returning later (0.0)
    for (k, b, both) in [(1, 0, False), (0, 1, False), (2, 1, True), (3, 0, True), (8, 4, False)]:
        ms = batch(0x10, [0x20, 0x30, 0x21], k, b, 61)
        if both:
            ms += batch(0x20, [0x10, 0x11], min(k, 3), min(b, 1), 100)
        for wins in [(1, 1, 1), (2, 3, 255), (255, 255, 255)]:
            for base in (0.2e-3, 1e-3):
                for cost in (0.3e-3, 2e-3):
                    for vis in (0.0, 1.0):
                        items.append(({'dll': DLL, 'stacks': stacks3(*wins), 'base_lat': base, 'send_cost': cost, 'send_visible': vis,
                                       'rx_threads': True, 'msgs': ms}, 0))
    # a second message submitted right after the n-th bus frame of the first, for every n (both must be accepted and delivered)
    for (m1, m2) in [(msg(0x10, 'bam2', 0x31, 130), msg(0x10, 'bam2', 0x32, 100)),
                     (msg(0x10, 'p2p', 0x20, 150), msg(0x10, 'p2p', 0x20, 130)),
                     (msg(0x10, 'bam2', 0x31, 120), msg(0x10, 'p2p', 0x20, 180)),
                     (msg(0x10, 'p2p', 0x20, 120), msg(0x11, 'bam1', 255, 70)),
                     (msg(0x10, 'p2p', 0x20, 130), msg(0x20, 'p2p', 0x10, 150))]:
        for wins in [(1, 1, 1), (2, 3, 255)]:
            for base in (LATS if not quick else [1e-3]):
                for n in range(1, 13):
                    sc = {'dll': DLL, 'stacks': stacks3(*wins), 'base_lat': base, 'late_ok': True,
                          'msgs': [m1, dict(m2, after=n, may_refuse=True)]}
                    items.append((sc, 0))
                    if base == 1e-3:
                        # the same with a blocking driver: the second call lands while the sender is inside send_message
                        items.append((dict(sc, send_cost=0.0003), 0))
    # the application reacts from inside a callback (next message from the EOM-acknowledge report, reply from the delivery)
    for wins in [(1, 1, 1), (2, 3, 255)]:
        for base in LATS:
            ms = [msg(0x10, 'p2p', 0x20, 150),
                  dict(msg(0x10, 'p2p', 0x20, 130), on={'tag': 'A.ca10', 'kind': 'ack'}, may_refuse=True),
                  dict(msg(0x20, 'p2p', 0x10, 170), on={'tag': 'B.ca20', 'kind': 'data'}, may_refuse=True),
                  dict(msg(0x10, 'bam2', 0x44, 100), on={'tag': 'A.ecu', 'kind': 'ack'}, may_refuse=True)]
            items.append(({'dll': DLL, 'stacks': stacks3(*wins), 'base_lat': base, 'msgs': ms}, 0))
    # broadcast capacity over the whole life of the sessions: 4 short BAMs, a 5th call after every bus frame
    small4 = [msg(0x10, 'bam2', 0x10 + i, 70 + 25 * i) for i in range(4)]
    for n in range(0, 26):
        probe = dict(msg(0x11, 'bam2', 0x55, 90), probe=True, after=n if n else None)
        items.append(({'dll': DLL, 'stacks': stacks3(1, 1, 1), 'base_lat': 1e-3, 'late_ok': True, 'msgs': small4 + [probe]}, 0))
    # a slow blocking driver (5 ms per frame): one window of 255 packets keeps the job thread inside one pass for longer than
    # the longest protocol timeout
    for size in (15301, 15360, 20000):
        sc = {'dll': DLL, 'stacks': stacks3(255, 255, 1), 'base_lat': 1e-3, 'send_cost': 0.005,
              'msgs': [msg(0x10, 'p2p', 0x20, size)], 'horizon': 8.0}
        items.append((sc, 0))
    # capacity: 8 (4) own sessions in flight, the 9th (5th) call at every point of the run,
    # with and without an inbound transfer completing meanwhile
    long8 = [msg(0x10, 'p2p', [0x20, 0x30, 0x21][i % 3], 300 + 60 * i) for i in range(8)]
    bam4 = [msg(0x10, 'bam2', 0x10 + i, 200 + 10 * i) for i in range(4)]
    inbound = [msg(0x20, 'p2p', 0x11, 100), msg(0x30, 'bam2', 0x77, 90)]
    npoints = 60 if quick else 260
    step = 1 if not quick else 1
    for withb in ([], bam4):
        for inb in ([], inbound):
            for after in range(0, npoints, step):
                for kind in (['p2p'] if not withb else ['p2p', 'bam']):
                    probe = msg(0x11, 'p2p', 0x20, 130) if kind == 'p2p' else msg(0x11, 'bam2', 0x55, 130)
                    probe['probe'] = True
                    probe['after'] = after if after else None
                    ms = long8 + withb + inb + [probe]
                    sc = {'dll': DLL, 'stacks': stacks3(1, 1, 1), 'base_lat': 1e-3, 'msgs': ms, 'late_ok': True}
                    items.append((sc, 0))
    return items


RULE = ("scenario = stacks x windows x message set (1..8 RTS/CTS + 0..4 BAM sessions per originator, one or both "
        "directions) x uniform latency in (0,5 ms] x capacity probe after the n-th bus frame for every n; small sets "
        "additionally with every single (thorough: pair of) latency / wake deviation; distinct by (scenario, choices), "
        "non-trivial if a message > 60 bytes is transferred")
ASSUME = ["J1939-22 reference layouts are the harness author's reading of the standard (normative text not available offline)",
          "latencies on the grid {0.2,1,5 ms}", "capacity reference counts sessions from the bus (RTS..EOMA, BAM..EOMS) with a 20 ms clean-up grace"]


def run(tier, seed):
    items = [(sc, b, seed) for (sc, b) in scenarios(tier)]
    items.sort(key=lambda it: -(it[1] * 100000 + sum(m['size'] for m in it[0]['msgs'])))
    for (m1, m2) in [(msg(0x10, 'bam2', 0x41, 130), msg(0x10, 'bam2', 0x42, 150, pat=1)),
                     (msg(0x10, 'bam2', 0x41, 130), msg(0x11, 'bam2', 0x42, 150, pat=1)),
                     (msg(0x10, 'p2p', 0x20, 130), msg(0x10, 'p2p', 0x20, 150, pat=1)),
                     (msg(0x10, 'p2p', 0x20, 130), msg(0x10, 'p2p', 0x30, 150, pat=1)),
                     (msg(0x10, 'p2p', 0x20, 130), msg(0x11, 'bam2', 0x42, 150, pat=1))]:
        base = {'dll': DLL, 'stacks': stacks3(2, 2, 2), 'base_lat': 1e-3, 'app_threads': True,
                'msgs': [m1, dict(m2, at=0.0003)]}
        items.append(('concurrent', base, seed))
    return run_check(PROP, tier, seed, 'exploration', items, worker, RULE, ASSUME,
                     bounds={'deviation_bound': 1 if tier == 'quick' else 2, 'latency_grid_ms': [0.2, 1, 5]})


def replay(rec):
    points, probs, outcome, trace = run_one(rec['scenario'], [tuple(c) for c in rec['choices']],
                                            rec.get('seed', 0), keep=True)
    print("\n".join(trace))
    if probs:
        print("REPRODUCED: " + "; ".join(probs))
        print("VIOLATION property=%s replay=(this file)" % PROP)
        return 1
    print("no violation on this tree")
    return 0
