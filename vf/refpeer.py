"""A conforming J1939-21 / J1939-22 transport peer (originator and responder) whose free
choices - packets granted per CTS, hold CTS before granting, reply latency, packet pacing, RTS
window limit, FD session number - are choice points of the explorer.  Written from the SAE
layouts (refcodec); imports nothing from the library.  DESIGN.md 2.6."""
from . import refcodec as R
from .net import Peer


def cid(prio, pf, ps, sa):
    return (prio << 26) | (pf << 16) | (ps << 8) | sa


class RefPeer(Peer):
    """one node with one address; may originate one message at a time and respond to any number"""
    wants_latency_choice = False

    def __init__(self, bus, name, addr, dll, grants=None, holds=(0,), rlat=(1e-3,), dt_gap=(0.0,),
                 bam_gap=(0.05,), hold_gap=(0.4,)):
        super().__init__(bus, name, self._on)
        self.addr = addr
        self.fd = dll == 'j1939-22'
        self.w = bus.w
        self.grants = grants            # None = always the maximum; 'all' = every legal value; list = subset
        self.holds = list(holds)
        self.rlat = list(rlat)
        self.dt_gap = list(dt_gap)
        self.bam_gap = list(bam_gap)
        self.hold_gap = list(hold_gap)  # time between two consecutive CTS of a hold (the standard's Th: at most 0.5 s)
        self.retx = False               # responder role: re-request the packets of a window from the first missing one on
        self.rlat_seq = None            # optional: reply latencies consumed one per reply decision (scripted peer timing)
        self.rx = {}                    # responder sessions
        self.tx = None                  # originator session
        self.received = []              # (pgn, sa, da, payload)
        self.problems = []              # protocol problems seen by this peer (text)
        self.acked = []

    # ------------------------------------------------------------------ helpers
    def cm(self, da, data, prio=7):
        pf = 0x4D if self.fd else 0xEC
        self.send(cid(prio, pf, da, self.addr), data, fd=self.fd)

    def dt(self, da, data):
        pf = 0x4E if self.fd else 0xEB
        self.send(cid(7, pf, da, self.addr), data, fd=self.fd)

    def later(self, dt, fn):
        if dt <= 0:
            fn()
        else:
            self.w.at(self.w.now + dt, fn)

    # ------------------------------------------------------------------ receive
    def _on(self, fr):
        if not fr.ext or fr.ps not in (self.addr, 255):
            return
        if self.fd:
            if fr.pf == 0x4D:
                self.on_cm(fr, R.tp22_decode_cm(fr.data))
            elif fr.pf == 0x4E and len(fr.data) >= 5:
                seg = fr.data[1] | (fr.data[2] << 8) | (fr.data[3] << 16)
                self.on_dt(fr, fr.data[0] >> 4, seg, fr.data[4:])
        else:
            if fr.pf == 0xEC:
                d = R.tp21_decode_cm(fr.data)
                if 't' in d:
                    d.setdefault('sess', None)
                    if 'npk' in d:
                        d['nseg'] = d['npk']
                self.on_cm(fr, d)
            elif fr.pf == 0xEB and len(fr.data) == 8:
                self.on_dt(fr, None, fr.data[0], fr.data[1:])

    def on_cm(self, fr, d):
        if 'bad' in d:
            self.problems.append("undecodable connection-management frame: " + d['bad'])
            return
        t = d['t']
        if t == 'RTS' and fr.ps == self.addr:
            key = (d['sess'], fr.sa)
            s = {'sess': d['sess'], 'o': fr.sa, 'size': d['size'], 'n': d['nseg'], 'limit': d['limit'] or 255,
                 'pgn': d['pgn'], 'data': [], 'next': 1, 'win_end': 0, 'bam': False, 'done': False}
            self.rx[key] = s
            lat = self.rlat_seq.pop(0) if self.rlat_seq else self.w.choose('p.rlat', self.rlat)
            holds = self.w.choose('p.holds', self.holds)
            self.later(lat, lambda: self.hold_then_cts(s, holds))
        elif t == 'BAM' and fr.ps == 255:
            self.rx[(d['sess'], fr.sa, 'b')] = {'sess': d['sess'], 'o': fr.sa, 'size': d['size'], 'n': d['nseg'],
                                                'pgn': d['pgn'], 'data': [], 'next': 1, 'bam': True, 'done': False}
        elif t == 'EOMS':
            key = (d['sess'], fr.sa) if fr.ps == self.addr else (d['sess'], fr.sa, 'b')
            s = self.rx.get(key)
            if s is None:
                return
            if self.retx and not s['bam'] and s['next'] <= s['n'] and (d['size'], d['nseg']) == (s['size'], s['n']):
                # segments are missing: ask for them again instead of acknowledging
                lat = self.w.choose('p.rlat', self.rlat)
                self.later(lat, lambda: self.hold_then_cts(s, 0))
                return
            if s['next'] <= s['n'] or (d['size'], d['nseg']) != (s['size'], s['n']):
                self.problems.append("end-of-message status does not match what was received")
                del self.rx[key]
                return
            self.received.append((s['pgn'], s['o'], fr.ps, bytes(s['data'][:s['size']])))
            del self.rx[key]
            if not s['bam']:
                self.cm(s['o'], R.tp22_cm(3, s['sess'], s['size'], s['n'], 0xFF, 0xFF, s['pgn']))
        elif t == 'CTS' and fr.ps == self.addr and self.tx is not None:
            self.on_cts(fr, d)
        elif t == 'EOMA' and fr.ps == self.addr and self.tx is not None:
            x = self.tx
            if d['sess'] != x['sess'] or fr.sa != x['da']:
                return
            if not x['all_sent']:
                self.problems.append("EndOfMsgACK before all packets were sent")
            if (d['size'], d['nseg'], d['pgn']) != (len(x['data']), x['n'], x['pgn']):
                self.problems.append("EndOfMsgACK fields (size %d, packets %d, PGN %05X) differ from the message (%d, %d, %05X)"
                                     % (d['size'], d['nseg'], d['pgn'], len(x['data']), x['n'], x['pgn']))
            self.acked.append(x['pgn'])
            self.tx = None
        elif t == 'ABORT' and fr.ps == self.addr:
            if self.tx is not None and fr.sa == self.tx['da']:
                self.problems.append("responder aborted the transfer (reason %d)" % d['reason'])
                self.tx = None
            for key in list(self.rx):
                if key[1] == fr.sa and len(key) == 2 and key[0] == d['sess']:
                    self.problems.append("originator aborted the transfer (reason %d)" % d['reason'])
                    del self.rx[key]

    # ------------------------------------------------------------------ responder role
    def hold_then_cts(self, s, holds):
        if s['done'] or self.rx.get((s['sess'], s['o'])) is not s:
            return
        if holds > 0:
            if self.fd:
                self.cm(s['o'], R.tp22_cm(1, s['sess'], 0xFFFFFF, s['next'], 0, 0, s['pgn']))
            else:
                self.cm(s['o'], R.tp21_cts(0, 0xFF, s['pgn']))
            gap = self.w.choose('p.holdgap', self.hold_gap)
            self.later(gap, lambda: self.hold_then_cts(s, holds - 1))
            return
        remaining = s['n'] - s['next'] + 1
        top = min(s['limit'], remaining)
        if self.grants is None:
            opts = [top]
        elif self.grants == 'all':
            opts = [top] + [g for g in range(1, top)]
        else:
            opts = [top] + [g for g in self.grants if g < top]
        g = self.w.choose('p.grant', opts)
        s['win_end'] = s['next'] + g - 1
        if self.fd:
            self.cm(s['o'], R.tp22_cm(1, s['sess'], 0xFFFFFF, s['next'], g, 0, s['pgn']))
        else:
            self.cm(s['o'], R.tp21_cts(g, s['next'], s['pgn']))

    def on_dt(self, fr, sess, seq, chunk):
        key = (sess, fr.sa) if fr.ps == self.addr else (sess, fr.sa, 'b')
        s = self.rx.get(key)
        if s is None:
            return
        seg = 60 if self.fd else 7
        if seq != s['next']:
            if self.retx and not s['bam'] and seq > s['next']:
                # a packet was lost: ignore the rest of the window and, at its end, ask again from the missing packet on
                # (J1939-21 5.10.2.4 / J1939-22: the CTS names the next packet the responder wants)
                if seq == s['win_end'] and not (self.fd and seq == s['n']):      # (FD: the end-of-message status follows)
                    lat = self.w.choose('p.rlat', self.rlat)
                    self.later(lat, lambda: self.hold_then_cts(s, 0))
                return
            self.problems.append("packet %d received, %d expected" % (seq, s['next']))
            return
        if not s['bam'] and seq > s['win_end']:
            self.problems.append("packet %d received beyond the cleared window (end %d)" % (seq, s['win_end']))
        s['data'].extend(chunk[:seg])
        s['next'] += 1
        if s['next'] > s['n']:
            if self.fd:
                return                     # wait for the end-of-message status
            self.received.append((s['pgn'], s['o'], fr.ps, bytes(s['data'][:s['size']])))
            s['done'] = True
            del self.rx[key]
            if not s['bam']:
                lat = self.w.choose('p.rlat', self.rlat)
                self.later(lat, lambda: self.cm(s['o'], R.tp21_eoma(s['size'], s['n'], s['pgn'])))
        elif not s['bam'] and seq == s['win_end']:
            lat = self.w.choose('p.rlat', self.rlat)
            holds = self.w.choose('p.holds', [0] if len(self.holds) == 1 else [0, 1])
            self.later(lat, lambda: self.hold_then_cts(s, holds))

    # ------------------------------------------------------------------ originator role
    def originate(self, da, pgn, data, limit=255, sess=0, prio=6):
        """da = 255: BAM; else RTS/CTS with the given window limit"""
        seg = 60 if self.fd else 7
        n = (len(data) + seg - 1) // seg
        frames = R.tp22_segments(data, sess) if self.fd else R.tp21_segments(data)
        x = {'da': da, 'pgn': pgn, 'data': list(data), 'n': n, 'limit': limit, 'sess': sess if self.fd else None,
             'frames': frames, 'next': 1, 'all_sent': False, 'cleared': 0}
        self.tx = x
        if da == 255:
            if self.fd:
                self.cm(255, R.tp22_cm(4, sess, len(data), n, 0xFF, 0, pgn), prio)
            else:
                self.cm(255, R.tp21_bam(len(data), n, pgn), prio)
            gap = self.w.choose('p.bamgap', self.bam_gap)
            self.later(gap, lambda: self.bam_next(x, gap))
        else:
            if self.fd:
                self.cm(da, R.tp22_cm(0, sess, len(data), n, min(limit, n), 0, pgn), prio)
            else:
                self.cm(da, R.tp21_rts(len(data), n, limit, pgn), prio)

    def bam_next(self, x, gap):
        if self.tx is not x:
            return
        self.dt(255, x['frames'][x['next'] - 1])
        x['next'] += 1
        if x['next'] > x['n']:
            x['all_sent'] = True
            if self.fd:
                self.later(gap, lambda: (self.cm(255, R.tp22_cm(2, x['sess'], len(x['data']), x['n'], 0, 0, x['pgn'])),
                                         setattr(self, 'tx', None)))
            else:
                self.tx = None
            return
        self.later(gap, lambda: self.bam_next(x, gap))

    def on_cts(self, fr, d):
        x = self.tx
        if d['sess'] != x['sess'] or fr.sa != x['da']:
            return
        if d['pgn'] != x['pgn']:
            self.problems.append("CTS carries PGN %05X, the session is for %05X" % (d['pgn'], x['pgn']))
        n, nxt = d['n'], d['next']
        if n == 0:
            return                          # hold
        remaining = x['n'] - x['next'] + 1
        if nxt != x['next']:
            self.problems.append("CTS asks for packet %d, next in order is %d" % (nxt, x['next']))
            return
        if n > min(x['limit'], x['n']) or n > remaining:
            self.problems.append("CTS grants %d packets (RTS limit %d, %d remaining)" % (n, x['limit'], remaining))
            n = min(n, remaining, x['limit'])
        x['cleared'] = n
        gap = self.w.choose('p.dtgap', self.dt_gap)
        lat = self.w.choose('p.rlat', self.rlat)
        self.later(lat, lambda: self.send_window(x, gap))

    def send_window(self, x, gap):
        if self.tx is not x or x['cleared'] <= 0:
            return
        self.dt(x['da'], x['frames'][x['next'] - 1])
        x['next'] += 1
        x['cleared'] -= 1
        if x['next'] > x['n']:
            x['all_sent'] = True
            if self.fd:
                self.cm(x['da'], R.tp22_cm(2, x['sess'], len(x['data']), x['n'], 0, 0, x['pgn']))
            return
        if x['cleared'] > 0:
            self.later(gap, lambda: self.send_window(x, gap))
