"""C05 - messages reach only the addressed applications; foreign traffic is ignored.
Exhaustive input enumeration (all 256 destinations x frame classes x source classes x stack
configurations x can.Message flag combinations) against a reference filter written from the
property statement.  DESIGN.md section 4 / C05."""
import can

from .. import rt
from ..runner import Acc, run_check
from ..net import Bus, Stack, Rec, j1939
from ..canon import containers
from ..scen import Net
from .c01 import msg

PROP = 'C05'
CA = j1939.ControllerApplication
NORMAL = CA.State.NORMAL
FOREIGN_SA = 0x99
INT_ADDR = 0x50
PRED_SET = (0x60, 0x10)


def pred(d):
    return d in PRED_SET


# stack configurations: list of (state, address) per CA + which ECU-level listeners exist
CONFIGS = [
    {'cas': [], 'lst': 'UIP'},
    {'cas': [('N', 0x10)], 'lst': 'UIP'},
    {'cas': [('N', 0x10), ('N', 0x20)], 'lst': 'UIP'},
    {'cas': [('N', 0x10), ('0', 0x30)], 'lst': 'UIP'},
    {'cas': [('N', 0x10), ('C', 0x81)], 'lst': 'UIP'},
    {'cas': [('0', 0x30)], 'lst': 'UIP'},
    {'cas': [('C', 0x81)], 'lst': 'UIP'},
    {'cas': [('N', 0x10), ('N', 0x20), ('0', 0x40)], 'lst': 'UIP'},
    {'cas': [('N', 0x10)], 'lst': 'P'},
    {'cas': [('N', 0x10)], 'lst': ''},
    {'cas': [('0', 0x30), ('C', 0x81)], 'lst': 'U'},
    {'cas': [('W', 0x85)], 'lst': 'UIP'},
    {'cas': [('N', 0x10), ('W', 0x85)], 'lst': 'UIP'},
    {'cas': [('N', 0x10)], 'lst': 'UIP', 'int': 0x00},         # integer listener bound to address 0
    {'cas': [('N', 0x10), ('N', 0x20)], 'lst': 'I', 'int': 0x00},
    {'cas': [('N', 0x10)], 'lst': 'IP', 'int': 0xFE},
]


class Cfg:
    def __init__(self, dll, cfg):
        self.w = w = rt.World()
        rt.activate(w)
        self.bus = bus = Bus(w, base_lat=1e-4)
        self.st = st = Stack(bus, 'X', dll=dll)
        self.dll = dll
        self.rec = Rec(w)
        self.cas = []
        self.listeners = []          # (tag, kind, ca index or None)
        self.ghost = bus.ghost_node()
        for i, (state, addr) in enumerate(cfg['cas']):
            nm = j1939.Name(arbitrary_address_capable=0, identity_number=0x100 + i, manufacturer_code=0x222)
            ca = CA(nm, addr)
            st.ecu.add_ca(controller_application=ca)
            self.cas.append(ca)
            ca.subscribe(self.rec.cb('ca%d' % i))
            self.listeners.append(('ca%d' % i, 'ca', i))
        if 'U' in cfg['lst']:
            st.ecu.subscribe(self.rec.cb('U'))
            self.listeners.append(('U', 'U', None))
        self.int_addr = cfg.get('int', INT_ADDR)
        if 'I' in cfg['lst']:
            st.ecu.subscribe(self.rec.cb('I'), self.int_addr)
            self.listeners.append(('I', 'I', None))
        if 'P' in cfg['lst']:
            st.ecu.subscribe(self.rec.cb('P'), pred)
            self.listeners.append(('P', 'P', None))
        w.run_for(0.005)
        # reach the claim states through real claim events
        for i, (state, addr) in enumerate(cfg['cas']):
            if state in ('N', 'C', 'W'):
                self.cas[i].start(claim_delay=0.0)
        w.run_for(0.002)
        for i, (state, addr) in enumerate(cfg['cas']):
            if state == 'C':
                # a contender with a lower NAME claims the same address: our fixed CA must give up
                self.ghost.send((6 << 26) | (0xEE << 16) | (0xFF << 8) | addr, bytes([1, 0, 0, 0, 0, 0, 0, 0]))
        w.run_for(0.002)
        if any(s == 'N' and a > 127 and a < 248 for (s, a) in cfg['cas']):
            w.run_for(0.3)
        self.cfg = cfg
        self.has_wait = any(s == 'W' for (s, _a) in cfg['cas'])
        want = {'N': CA.State.NORMAL, 'C': CA.State.CANNOT_CLAIM, '0': CA.State.NONE, 'W': CA.State.WAIT_VETO}
        self.setup_ok = all(ca.state == want[s] for ca, (s, _a) in zip(self.cas, cfg['cas']))
        self.ntx0 = len([f for f in bus.log if f.src == 'X'])

    def owned(self, da):
        return any(ca.state == NORMAL and ca.device_address == da for ca in self.cas) or \
            ('I' in self.cfg['lst'] and da == self.int_addr)

    def idle_state(self):
        return containers(self.st.ecu.j1939_dll)

    def close(self):
        self.w.shutdown()


def frame_kinds(dll):
    """(name, pf, data, class) ; class: 'ord' ordinary data (lower bound asserted), 'pdu2', 'proto' protocol"""
    k = [('PDU1 data', 0xD0, [1, 2, 3, 4, 5, 6, 7, 8], 'ord'), ('proprietary A', 0xEF, [1, 2, 3], 'ord'),
         ('request', 0xEA, [0xEE, 0xFE, 0x00], 'proto'), ('address claim', 0xEE, [0xFF] * 8, 'proto')]
    if dll == 'j1939-21':
        pgn = [0, 0xD0, 0]
        for c in (16, 17, 19, 32, 255, 0x55):
            k.append(('TP.CM %d' % c, 0xEC, [c, 20, 0, 3, 255] + pgn, 'proto'))
        k.append(('TP.DT', 0xEB, [1, 1, 2, 3, 4, 5, 6, 7], 'proto'))
    else:
        pgn = [0, 0xD0, 0]
        for c in (0, 1, 2, 3, 4, 15, 7):
            k.append(('FD.TP.CM %d' % c, 0x4D, [c, 150, 0, 0, 3, 0, 0, 255, 0] + pgn, 'proto'))
        k.append(('FD.TP.DT', 0x4E, [0, 1, 0, 0] + [9] * 60, 'proto'))
        k.append(('multi-PG', 0x25, [0x40, 0xD0, 0x00, 4, 1, 2, 3, 4], 'ord'))
        # several contained groups (each listener bound to the frame's destination gets every one of them): a PDU2 group
        # alone, in front of and between PDU1 groups
        g1 = [0x40, 0xD0, 0x00, 2, 1, 2]
        g2 = [0x40, 0xFF, 0x12, 3, 7, 8, 9]
        k.append(('multi-PG (PDU2 group)', 0x25, g2 + [0, 0, 0, 0xAA, 0xAA], 'ord1'))
        k.append(('multi-PG (PDU2, PDU1 groups)', 0x25, g2 + g1 + [0, 0, 0], 'ord2'))
        k.append(('multi-PG (PDU1, PDU2, PDU1 groups)', 0x25, g1 + g2 + g1, 'ord3'))
        k.append(('TP.CM on FD', 0xEC, [16, 20, 0, 3, 255] + pgn, 'proto'))
    return k


def eval_frame(c, name, pf, da, sa, data, cls, acc, sc, flags=None):
    """inject one frame and judge it against the reference filter; returns True if state may have changed"""
    w = c.w
    n0 = len(c.rec.items)
    tx0 = len([f for f in c.bus.log if f.src == 'X'])
    before = c.idle_state()
    can_id = (6 << 26) | ((pf >> 8) << 24) | ((pf & 0xFF) << 16) | (da << 8) | sa
    pf &= 0xFF
    if flags is None:
        c.ghost.send(can_id, bytes(data), fd=(c.dll == 'j1939-22'))
        w.run_for(0.0005)
    else:
        ext, remote, err = flags
        m = can.Message(timestamp=w.now, arbitration_id=can_id if ext else (can_id & 0x7FF), is_extended_id=ext,
                        is_remote_frame=remote, is_error_frame=err, data=bytes(data) if not remote else None,
                        dlc=len(data), check=False)
        c.st.listener.on_message_received(m)
        w.run_for(0.0005)
    fired = {}
    for (tag, _t, _p, _pgn, _sa, _d) in c.rec.items[n0:]:
        fired[tag] = fired.get(tag, 0) + 1
    tx = [f for f in c.bus.log if f.src == 'X'][tx0:]
    after = c.idle_state()
    probs = []
    pdu2 = pf >= 240
    glob = pdu2 or da == 255
    what = "%s to %s from %s" % (name, 'a group extension' if pdu2 else ('255' if da == 255 else 'destination'), 'the null address' if sa == 254 else 'a foreign node')
    if flags is not None and flags != (True, False, False):
        if fired or tx or after != before:
            probs.append("a frame with flags extended=%s remote=%s error=%s was processed" % flags)
    elif not glob and not c.owned(da):
        if fired:
            probs.append("%s: un-owned destination reached listener(s) %s" % (what, sorted(fired)))
        if tx:
            probs.append("%s: un-owned destination made the stack transmit" % what)
        if after != before:
            probs.append("%s: un-owned destination left state behind" % what)
    else:
        for (tag, kind, ci) in c.listeners:
            n = fired.get(tag, 0)
            if glob:
                bound = True
            elif kind == 'ca':
                ca = c.cas[ci]
                bound = ca.state == NORMAL and ca.device_address == da
            elif kind == 'U':
                bound = True
            elif kind == 'I':
                bound = da == c.int_addr
            else:
                bound = pred(da)
            if not bound and n:
                probs.append("%s: listener %s is not bound to the destination but was called" % (what, kindname(kind)))
            want_n = int(cls[3:]) if cls.startswith('ord') and len(cls) > 3 else 1
            if cls.startswith('ord') and len(cls) > 3 and bound and n != want_n:
                probs.append("%s: listener %s is bound to the destination and was called %d times for %d contained groups" % (what, kindname(kind), n, want_n))
            if cls in ('ord', 'pdu2') and bound and n != 1:
                probs.append("%s: listener %s is bound to the destination and was called %d times" % (what, kindname(kind), n))
    key = (sc['dll'], sc['cfg'], name, da, sa, flags)
    acc.case(key, nontrivial=True, outcome=(sc['dll'], sc['cfg'], name, sorted(fired.items()), len(tx), after != before))
    if probs:
        acc.violation(probs[0], dict(sc, frame={'name': name, 'pf': pf, 'da': da, 'sa': sa, 'data': list(data), 'cls': cls,
                                                 'flags': list(flags) if flags else None}), None, probs[:3])
    return bool(tx) or after != before


def kindname(k):
    return {'ca': 'of a CA', 'U': 'unfiltered', 'I': 'with an integer address', 'P': 'with a predicate'}[k]


def worker(item):
    kind = item[0]
    acc = Acc()
    if kind == 'matrix':
        _k, dll, ci, das, seed = item
        cfg = CONFIGS[ci]
        sc = {'kind': 'matrix', 'dll': dll, 'cfg': ci}
        c = Cfg(dll, cfg)
        try:
            if not c.setup_ok:
                acc.violation("HARNESS: could not reach the claim states of configuration %d" % ci, sc)
                return acc
            kinds = frame_kinds(dll)
            count = 0
            for da in das:
                for (name, pf, data, cls) in kinds:
                    for sa in (FOREIGN_SA, 254):
                        if c.has_wait and count >= 60:
                            c.close()
                            c = Cfg(dll, cfg)
                            count = 0
                        dirty = eval_frame(c, name, pf, da, sa, data, cls, acc, sc)
                        count += 1
                        if dirty:
                            if c.has_wait:
                                c.close()
                                c = Cfg(dll, cfg)
                                count = 0
                            else:
                                c.w.run_for(3.2)      # let whatever the frame opened expire
                                if c.st.job.exc is not None:
                                    acc.violation("job thread dead after %s" % name, sc)
                                    c.close()
                                    c = Cfg(dll, cfg)
                if len(acc.violations) > 20:
                    break
            # PDU2 group extensions, incl. one equal to a local address
            for ge in (0x00, 0x10, 0x50, 0xCA, 0xFE, 0xFF):
                for sa in (FOREIGN_SA, 254):
                    eval_frame(c, 'PDU2 data', 0xFE, ge, sa, [1, 2, 3, 4, 5, 6, 7, 8], 'pdu2', acc, sc)
        finally:
            c.close()
        acc.sample({'dll': dll, 'configuration': cfg, 'destinations': [das[0], das[-1]],
                    'frame': {'name': 'PDU1 data', 'pf': 0xD0, 'da': das[0], 'sa': FOREIGN_SA}})
    elif kind == 'pfsweep':
        # every PDU format x {owned CA address, integer-listener address, predicate address, unowned, null, global}
        _k, dll, ci, seed = item[:4]
        cfg = CONFIGS[ci]
        sc = {'kind': 'pfsweep', 'dll': dll, 'cfg': ci}
        c = Cfg(dll, cfg)
        try:
            proto = {0xEA, 0xEE, 0xEC, 0xEB} | ({0x4D, 0x4E, 0x25} if dll == 'j1939-22' else set())
            for pf in range(256):
                cls = 'proto' if pf in proto else ('pdu2' if pf >= 240 else 'ord')
                for da in (item[4] if len(item) > 4 else (0x10, 0x20, INT_ADDR, 0x60, 0x33, 0xFE, 0xFF)):
                    for dp in (0, 1):
                        data = [pf & 0xFF, 2, 3, 4, 5, 6, 7, 8] if pf not in (0x25,) else [0x40, 0xD0, 0x00, 4, 1, 2, 3, 4]
                        dirty = eval_frame(c, 'PF %d' % pf, pf | (dp << 8), da, FOREIGN_SA, data, cls, acc, sc)
                        if dirty:
                            if c.has_wait:
                                c.close()
                                c = Cfg(dll, cfg)
                            else:
                                c.w.run_for(3.2)
        finally:
            c.close()
        acc.sample({'dll': dll, 'configuration': cfg, 'sweep': 'all 256 PDU formats x data page x 7 destinations'})
    elif kind == 'flags':
        _k, dll, ci, seed = item
        cfg = CONFIGS[ci]
        sc = {'kind': 'flags', 'dll': dll, 'cfg': ci}
        c = Cfg(dll, cfg)
        try:
            for (name, pf, data, cls) in frame_kinds(dll):
                for da in (0x10, 0x50, 0x33, 255):
                    for ext in (True, False):
                        for remote in (True, False):
                            for err in (True, False):
                                dirty = eval_frame(c, name, pf, da, FOREIGN_SA, data, cls, acc, sc, flags=(ext, remote, err))
                                if dirty:
                                    c.w.run_for(3.2)
        finally:
            c.close()
        acc.sample({'dll': dll, 'configuration': cfg, 'flags': [False, True, False]})
    elif kind == 'dynamic':
        _k, dll, seed = item
        dynamic(dll, seed, acc)
    elif kind == 'lost_mid_session':
        _k, dll, seed = item
        lost_mid_session(dll, seed, acc)
    elif kind == 'subhist':
        _k, dll, first, depth, seed = item
        subhist(dll, first, depth, seed, acc)
    else:
        _k, dll, wins, seed = item
        bystander(dll, wins, seed, acc)
    return acc


DYN_KINDS = ['U', 'ca', 'U', 'I', 'ca']      # registration order of the listeners of the dynamic scenarios
DYN_ACTIONS = ['unsub_self', 'unsub_next', 'unsub_prev', 'resub_self']


def dynamic_one(dll, k, action, first, keep=False):
    """listeners that unsubscribe (themselves / a neighbour) from inside their callback while a frame is being delivered:
    every *other* bound listener still gets that frame exactly once, and the following frame reaches exactly the listeners
    still registered"""
    w = rt.World()
    rt.activate(w)
    try:
        bus = Bus(w, base_lat=1e-4)
        st = Stack(bus, 'X', dll=dll)
        ca = st.add_ca(0x10, name_value=0x4711)
        ghost = bus.ghost_node()
        calls = []
        subs = []                  # [kind, callback, registered]
        state = {'armed': True}

        def unsub(j):
            kind, cb, reg = subs[j]
            if reg:
                (ca if kind == 'ca' else st.ecu).unsubscribe(cb)
                subs[j][2] = False

        def sub(j):
            kind, cb, reg = subs[j]
            if kind == 'ca':
                ca.subscribe(cb)
            elif kind == 'I':
                st.ecu.subscribe(cb, 0x10)
            else:
                st.ecu.subscribe(cb)
            subs[j][2] = True

        def make(j):
            def cb(priority, pgn, sa, timestamp, data):
                calls.append(j)
                if j == k and state['armed']:
                    state['armed'] = False
                    state['touched'] = {'unsub_self': [k], 'resub_self': [k], 'unsub_next': [(k + 1) % len(subs)],
                                        'unsub_prev': [(k - 1) % len(subs)]}[action]
                    if action in ('unsub_self', 'resub_self'):
                        unsub(k)
                        if action == 'resub_self':
                            sub(k)
                    elif action == 'unsub_next':
                        unsub((k + 1) % len(subs))
                    else:
                        unsub((k - 1) % len(subs))
            return cb

        for j, kind in enumerate(DYN_KINDS):
            subs.append([kind, None, False])
            subs[j][1] = make(j)
            sub(j)
        w.run_for(0.005)
        probs = []
        frames = [('broadcast', (6 << 26) | (0xFE << 16) | (0x42 << 8) | FOREIGN_SA),
                  ('to the CA', (6 << 26) | (0xD0 << 16) | (0x10 << 8) | FOREIGN_SA)]
        if first == 'ds':
            frames.reverse()
        for n, (name, can_id) in enumerate(frames + frames):
            before = [r for (_k, _c, r) in subs]
            state.pop('touched', None)
            del calls[:]
            ghost.send(can_id, bytes([n, 2, 3, 4, 5, 6, 7, 8]))
            w.run_for(0.002)
            touched = state.get('touched', [])
            for j in range(len(subs)):
                got = calls.count(j)
                if j in touched and action != 'unsub_self':
                    # unsubscribed by a neighbour / re-registered during this delivery: before or after its turn
                    if got > 1:
                        probs.append("frame %d (%s): listener %d called %d times" % (n, name, j, got))
                    continue
                want = 1 if before[j] else 0
                if got != want:
                    probs.append("frame %d (%s): listener %d (%s, registered: %s) was called %d time(s) while listener %d %s from inside its callback"
                                 % (n, name, j, DYN_KINDS[j], before[j], got, k, action) if touched else
                                 "frame %d (%s): listener %d (%s, registered: %s) was called %d time(s)" % (n, name, j, DYN_KINDS[j], before[j], got))
        if st.job.exc is not None:
            probs.append("job thread dead: %s" % st.job.exc_type)
        return probs
    finally:
        w.shutdown()


def dynamic(dll, seed, acc):
    for k in range(len(DYN_KINDS)):
        for action in DYN_ACTIONS:
            for first in ('bc', 'ds'):
                probs = dynamic_one(dll, k, action, first)
                sc = {'kind': 'dynamic', 'dll': dll, 'k': k, 'action': action, 'first': first}
                acc.case(repr(sc), outcome=len(probs))
                if probs:
                    import re
                    acc.violation(re.sub(r'\d+', 'N', probs[0].split(' while ')[0]) + (' while another listener unsubscribes inside its callback' if ' while ' in probs[0] else ''),
                                  sc, None, probs[:3])
    acc.sample({'dll': dll, 'dynamic': 'listener k of %r performs %r inside its callback' % (DYN_KINDS, DYN_ACTIONS)})

SUBH_ADDRS = (0x30, 0x31)


def subhist_options(reg):
    out = []
    for i in range(3):
        if reg[i] is None:
            out += [('sub', i, a) for a in SUBH_ADDRS]
        else:
            out.append(('unsub', i))
    return out


def subhist_one(dll, hist):
    """a history of subscribe(cb, address) / unsubscribe(cb) of three ECU-level listeners bound to addresses no CA of the ECU
    holds; after every operation a frame to each of the two addresses and a broadcast frame are delivered: a listener is called
    exactly once iff it is registered and (broadcast or its address is the destination)"""
    w = rt.World()
    rt.activate(w)
    try:
        bus = Bus(w, base_lat=1e-4)
        st = Stack(bus, 'X', dll=dll)
        st.add_ca(0x10, name_value=0x4711)
        ghost = bus.ghost_node()
        calls = []
        class App:
            def __init__(self, i):
                self.i = i

            def on_message(self, priority, pgn, sa, timestamp, data):
                calls.append(self.i)
        apps = [App(i) for i in range(3)]
        fns = [(lambda priority, pgn, sa, timestamp, data, i=i: calls.append(i)) for i in range(3)]
        # listener 1 is a bound method of an application object: every access makes a new, equal object
        cbs = [(lambda: fns[0]), (lambda: apps[1].on_message), (lambda: fns[2])]
        reg = [None, None, None]
        w.run_for(0.005)
        probs = []
        for n, op in enumerate(hist):
            if op[0] == 'sub':
                st.ecu.subscribe(cbs[op[1]](), op[2])
                reg[op[1]] = op[2]
            else:
                st.ecu.unsubscribe(cbs[op[1]]())
                reg[op[1]] = None
            for da in SUBH_ADDRS + (255,):
                del calls[:]
                n0 = len(bus.log)
                if da == 255:
                    ghost.send((6 << 26) | (0xFE << 16) | (0x42 << 8) | FOREIGN_SA, bytes([n, 2, 3, 4, 5, 6, 7, 8]))
                else:
                    ghost.send((6 << 26) | (0xD0 << 16) | (da << 8) | FOREIGN_SA, bytes([n, 2, 3, 4, 5, 6, 7, 8]))
                w.run_for(0.001)
                for i in range(3):
                    want = 1 if (reg[i] is not None and (da == 255 or reg[i] == da)) else 0
                    if calls.count(i) != want:
                        probs.append("after %r: a frame to %s called listener %d (%s) %d time(s), expected %d" % (
                            list(hist[:n + 1]), 'all' if da == 255 else '0x%02X' % da, i,
                            'not registered' if reg[i] is None else 'bound to 0x%02X' % reg[i], calls.count(i), want))
                if len(bus.log) != n0 + 1:
                    probs.append("after %r: a single frame made the stack transmit" % (list(hist[:n + 1]),))
            if probs:
                break
        if st.job.exc is not None:
            probs.append("job thread dead: %s" % st.job.exc_type)
        return probs
    finally:
        w.shutdown()


def subhist(dll, first, depth, seed, acc):
    def rec(hist, reg):
        if len(hist) == depth:
            probs = subhist_one(dll, hist)
            sc = {'kind': 'subhist', 'dll': dll, 'history': [list(o) for o in hist]}
            acc.case(repr(sc), outcome=len(probs))
            if probs:
                import re
                acc.violation("history of subscribe / unsubscribe of address-bound listeners: " + re.sub(r'after \[.*\]: ', '', re.sub(r'listener \d', 'listener', probs[0])), sc, None, probs[:3])
            return
        for op in subhist_options(reg):
            r2 = list(reg)
            r2[op[1]] = op[2] if op[0] == 'sub' else None
            rec(hist + [op], r2)
    reg = [None, None, None]
    reg[first[1]] = first[2]
    rec([first], reg)
    acc.sample({'dll': dll, 'subhist': 'all histories of depth %d starting with %r' % (depth, first)})


def lost_mid_session(dll, seed, acc):
    """a connection-mode transfer towards a CA is under way when the CA loses its address to a lower NAME (right after the k-th
    frame, every k): from then on the destination is owned by nobody on this stack - the remaining data packets produce no
    delivery to any listener (what the stack still *sends* for the open session is C13's business, see its known finding)"""
    from ..refpeer import RefPeer
    seg = 7 if dll == 'j1939-21' else 60
    size = seg * 3 - 1
    data = [(i * 3 + 1) & 0xFF for i in range(size)]

    def one(k):
        w = rt.World()
        rt.activate(w)
        try:
            bus = Bus(w, base_lat=2e-4)
            st = Stack(bus, 'X', dll=dll, max_cmdt_packets=255)
            nm = j1939.Name(arbitrary_address_capable=0, identity_number=0x77, manufacturer_code=0x222)
            ca = CA(nm, 0x10)
            st.ecu.add_ca(controller_application=ca)
            rec = Rec(w)
            ca.subscribe(rec.cb('ca'))
            st.ecu.subscribe(rec.cb('U'))
            peer = RefPeer(bus, 'P', 0x99, dll, rlat=(1e-3,), dt_gap=(0.002,))
            ca.start(claim_delay=0.0)
            w.run_for(0.01)
            if ca.state != NORMAL:
                return None, ["HARNESS: the CA did not become operational"]
            n0 = len(bus.log)
            if k is not None:
                bus.inject[n0 + k] = [((6 << 26) | (0xEE << 16) | (0xFF << 8) | 0x10, bytes([1, 0, 0, 0, 0, 0, 0, 0]), False)]
            peer.originate(0x10, 0xD000, data, limit=255, sess=1)
            w.run_for(4.5)
            lost_at = None
            for f in bus.log:
                if f.injected:
                    got = [t for (t, idx) in st.rx_log if idx == f.idx]
                    lost_at = got[0] if got else None
            probs = []
            if k is None:
                if [x[0] for x in rec.items] != ['ca', 'U'] and sorted(x[0] for x in rec.items) != ['U', 'ca']:
                    probs.append("HARNESS: the undisturbed transfer was not delivered once to the CA and the unfiltered listener: %r" % [x[0] for x in rec.items])
            elif lost_at is not None:
                late = [x for x in rec.items if x[1] > lost_at + 1e-9 and len(x[5]) == size]
                if late:
                    probs.append("a message addressed to an address the CA had lost %.1f ms earlier was delivered to listener(s) %s"
                                 % ((late[0][1] - lost_at) * 1e3, sorted(set(x[0] for x in late))))
            return len(bus.log) - n0, probs
        finally:
            w.shutdown()
    n, probs = one(None)
    sc = {'kind': 'lost_mid_session', 'dll': dll}
    if probs:
        acc.violation(probs[0], sc, None, probs[:2])
        return
    for k in range(0, n - 1):
        _n, probs = one(k)
        acc.case(('lost_mid_session', dll, k), nontrivial=True, outcome=bool(probs))
        if probs:
            import re
            acc.violation(re.sub(r'[0-9.]+ ms', 'N ms', probs[0]), dict(sc, after_frame=k), None, probs[:2])
    acc.sample({'kind': 'lost_mid_session', 'dll': dll, 'frames': n})


def bystander(dll, wins, seed, acc):
    """complete foreign transport sessions between A and B observed by stack C"""
    big = 30 if dll == 'j1939-21' else 200
    sc = {'dll': dll, 'base_lat': 1e-3,
          'stacks': [{'name': 'A', 'cas': [0x10], 'win': wins[0]}, {'name': 'B', 'cas': [0x20], 'win': wins[1]},
                     {'name': 'C', 'cas': [0x30, 0x31], 'win': 1}],
          'msgs': [msg(0x10, 'p2p', 0x20, big), msg(0x20, 'p2p', 0x10, big + 9), msg(0x10, 'bam2', 0x30, big + 3),
                   msg(0x20, 'p2p', 0x10, 5), msg(0x10, 'p2p', 0x20, 8)]}
    net = Net(sc)
    try:
        C = net.stacks[2]
        dirty = []
        net.bus.taps.append(lambda fr: dirty.append(fr.idx) if (fr.ps not in (255,) and fr.pf < 240 and not net.is_idle(C)) else None)
        for m in sc['msgs']:
            net.submit(m, seed)
        net.w.run_for(2.0)
        probs = net.judge_deliveries()
        if [f for f in net.bus.log if f.src == 'C']:
            probs.append("bystander stack transmitted a frame in reaction to foreign transport traffic")
        if not net.is_idle(C):
            probs.append("bystander stack holds session state after foreign transport traffic")
        acc.case(('bystander', dll, wins), outcome=net.outcome())
        if probs:
            acc.violation("bystander: " + (probs[0] if 'missing' not in probs[0] else 'delivery differs from the reference'),
                          {'kind': 'bystander', 'scenario': sc}, None, probs[:3])
    finally:
        net.close()


RULE = ("every (configuration, frame) pair is evaluated on the real stack and compared with the reference filter: "
        "13 stack configurations (0..3 CAs in the states none / waiting for veto / operational / cannot-claim reached through "
        "real claim events; ECU listeners unfiltered + integer address + predicate, predicate only, none) x both layers x all "
        "256 destination addresses x 11 (J1939-21) / 14 (J1939-22) frame classes (data, proprietary A, request, address claim, "
        "every TP.CM / FD.TP.CM control byte, TP.DT, multi-PG) x source {foreign, 254} + PDU2 group extensions; all 8 "
        "can.Message flag combinations through the real MessageListener; foreign TP sessions watched by a bystander stack")
ASSUME = ["'owned' = an operational CA holds the address or an ECU listener was registered with that integer address; a "
          "predicate-only listener may but need not make a destination local",
          "lower bound (exactly one call) asserted for data frames only; protocol frames are judged on the upper bound",
          "the waiting-for-veto configurations are rebuilt every 60 frames (the state lasts 250 ms)"]


def run(tier, seed):
    items = []
    quick = tier == 'quick'
    for dll in ('j1939-21', 'j1939-22'):
        for ci in range(len(CONFIGS)):
            das = list(range(256))
            n = 64 if not CONFIGS[ci]['cas'] or any(s == 'W' for s, _a in CONFIGS[ci]['cas']) else 32
            if any(s == 'W' for s, _a in CONFIGS[ci]['cas']) and quick:
                das = [0, 0x10, 0x50, 0x60, 0x84, 0x85, 0x86, 0xFD, 0xFE, 0xFF]
            for i in range(0, len(das), n):
                items.append(('matrix', dll, ci, das[i:i + n], seed))
        for ci in (1, 3, 7):
            items.append(('flags', dll, ci, seed))
        for ci in ((2, 4, 7) if quick else range(len(CONFIGS))):
            if not any(s == 'W' for s, _a in CONFIGS[ci]['cas']):
                items.append(('pfsweep', dll, ci, seed))
        if not quick:
            # thorough: every PDU format x every destination (x data page) for three configurations
            for ci in (2, 4, 7):
                for lo in range(0, 256, 16):
                    items.append(('pfsweep', dll, ci, seed, list(range(lo, lo + 16))))
        for wins in ((1, 1), (2, 3), (255, 255)):
            items.append(('bystander', dll, wins, seed))
        items.append(('dynamic', dll, seed))
        for first in subhist_options([None, None, None]):
            items.append(('subhist', dll, first, 4 if quick else 6, seed))
        items.append(('lost_mid_session', dll, seed))
    return run_check(PROP, tier, seed, 'exploration', items, worker, RULE, ASSUME,
                     bounds={'destinations': 256, 'configurations': len(CONFIGS)})


def replay(rec):
    sc = rec['scenario']
    acc = Acc()
    if sc.get('kind') == 'lost_mid_session':
        a = Acc()
        lost_mid_session(sc['dll'], rec.get('seed', 0), a)
        mine = [v for v in a.violations if v['scenario'].get('after_frame') == sc.get('after_frame')]
        if mine:
            print("REPRODUCED: " + "; ".join(mine[0]['detail']))
            print("VIOLATION property=%s replay=(this file)" % PROP)
            return 1
        print("no violation on this tree")
        return 0
    if sc.get('kind') in ('dynamic', 'subhist'):
        probs = dynamic_one(sc['dll'], sc['k'], sc['action'], sc['first']) if sc['kind'] == 'dynamic' else \
            subhist_one(sc['dll'], [tuple(o) for o in sc['history']])
        if probs:
            print("REPRODUCED: " + "; ".join(probs[:4]))
            print("VIOLATION property=%s replay=(this file)" % PROP)
            return 1
        print("no violation on this tree")
        return 0
    if sc.get('kind') == 'bystander':
        bystander(sc['scenario']['dll'], [s['win'] for s in sc['scenario']['stacks'][:2]], rec.get('seed', 0), acc)
    else:
        c = Cfg(sc['dll'], CONFIGS[sc['cfg']])
        try:
            f = sc['frame']
            eval_frame(c, f['name'], f['pf'], f['da'], f['sa'], f['data'], f['cls'], acc, sc,
                       flags=tuple(f['flags']) if f.get('flags') else None)
        finally:
            c.close()
    if acc.violations:
        print("REPRODUCED: " + "; ".join(str(x) for x in acc.violations[0]['detail'] or [acc.violations[0]['sig']]))
        print("VIOLATION property=%s replay=(this file)" % PROP)
        return 1
    print("no violation on this tree")
    return 0
