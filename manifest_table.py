CHECKS = {
 'C01': dict(engine='vworld', level='exploration',
   technique='stateless deviation-bounded schedule exploration of the real stacks on a virtual bus (model checking of the implementation)',
   text='Every scenario (2-4 real stacks, message sets on distinct SA/DA pairs, windows 1..255 per stack, all boundary sizes; thorough: every size 0..1785) is executed on the real code under every uniform latency of the grid and every single (thorough: pair of) per-frame latency / per-wait wake-latency deviation, including zero latency (reply handled inside the send call); the delivery multiset per listener is compared with a reference model.',
   note='Latencies on a grid {0,0.2,1,5 ms}; payload bytes from three patterns; virtual time (1 us per clock read); python-can itself is outside the world.'),
}
