"""C15 - identifier / PGN / NAME codecs are exact inverses on their whole domain.
Exhaustive input enumeration against the independent reference codec."""
from ..runner import Acc, run_check
from ..net import j1939
from .. import refcodec as R

PROP = 'C15'
MessageId = j1939.MessageId
PGN = j1939.ParameterGroupNumber
Name = j1939.Name

_REUSED = {'m': MessageId(can_id=0), 'g': PGN()}


def check_id(x, acc, sc):
    m = MessageId(can_id=x)
    prio, edp, dp, pf, ps, sa = R.id_parse(x)
    pgn18 = (x >> 8) & 0x3FFFF
    if (m.priority, m.parameter_group_number, m.source_address) != (prio, pgn18, sa):
        acc.violation("identifier parse: wrong field", sc, None, "can_id=%08X -> prio=%r pgn=%r sa=%r" % (x, m.priority, m.parameter_group_number, m.source_address))
        return
    if m.can_id != x:
        acc.violation("identifier parse->compose is not the identity", sc, None, "can_id=%08X -> %08X" % (x, m.can_id))
        return
    m2 = MessageId(priority=prio, parameter_group_number=pgn18, source_address=sa)
    if m2.can_id != R.id_compose(prio, pgn18, sa):
        acc.violation("identifier compose: wrong bits", sc, None, "prio=%d pgn=%05X sa=%02X -> %08X" % (prio, pgn18, sa, m2.can_id))
        return
    g = PGN()
    g.from_message_id(m)
    if (g.data_page, g.pdu_format, g.pdu_specific) != (dp, pf, ps) or g.value != (pgn18 & 0x1FFFF) \
            or bool(g.is_pdu1_format) != (pf < 240) or bool(g.is_pdu2_format) != (pf >= 240):
        acc.violation("PGN fields / PDU classification disagree with the numeric value", sc, None,
                      "pgn=%05X -> dp=%r pf=%r ps=%r value=%r pdu1=%r" % (pgn18, g.data_page, g.pdu_format, g.pdu_specific, g.value, g.is_pdu1_format))
        return
    g2 = PGN(dp, pf, ps)
    if g2.value != (pgn18 & 0x1FFFF):
        acc.violation("PGN built from fields has the wrong value", sc, None, "dp=%d pf=%d ps=%d -> %r" % (dp, pf, ps, g2.value))
        return
    # the same on objects that are re-used over the whole enumeration (a history on one object: whatever was read from it
    # for the previous identifier must not show through), and after assigning to a public field
    mr, gr = _REUSED['m'], _REUSED['g']
    mr.can_id = x
    if (mr.priority, mr.parameter_group_number, mr.source_address, mr.can_id) != (prio, pgn18, sa, x):
        acc.violation("identifier parse on a re-used MessageId object: wrong field", sc, None,
                      "can_id=%08X -> prio=%r pgn=%r sa=%r id=%08X" % (x, mr.priority, mr.parameter_group_number, mr.source_address, mr.can_id))
        return
    gr.from_message_id(mr)
    if (gr.data_page, gr.pdu_format, gr.pdu_specific) != (dp, pf, ps) or gr.value != (pgn18 & 0x1FFFF) \
            or bool(gr.is_pdu1_format) != (pf < 240) or bool(gr.is_pdu2_format) != (pf >= 240):
        acc.violation("PGN fields / PDU classification disagree with the numeric value on a re-used object", sc, None,
                      "can_id=%08X pgn=%05X -> dp=%r pf=%r ps=%r value=%r pdu1=%r" % (x, pgn18, gr.data_page, gr.pdu_format, gr.pdu_specific, gr.value, gr.is_pdu1_format))
        return
    gr.pdu_specific = ps ^ 0x5A
    gr.pdu_format = pf ^ 0xF0
    if gr.value != ((dp << 16) | ((pf ^ 0xF0) << 8) | (ps ^ 0x5A)) or bool(gr.is_pdu1_format) != ((pf ^ 0xF0) < 240):
        acc.violation("PGN value / classification does not follow an assignment to its fields", sc, None,
                      "can_id=%08X pgn=%05X then pf=%02X ps=%02X -> value=%r pdu1=%r" % (x, pgn18, pf ^ 0xF0, ps ^ 0x5A, gr.value, gr.is_pdu1_format))


def id_worker(item):
    kind, lo, hi, seed = item
    acc = Acc()
    sc = {'kind': kind, 'range': [lo, hi]}
    n = 0
    if kind == 'all_ids':
        for x in range(lo, hi):
            check_id(x, acc, sc)
            if acc.violations:
                break
        n = hi - lo
    elif kind == 'all_pgns':
        # all 2^18 PGN values x boundary priority / source address
        for pgn in range(lo, hi):
            for prio in (0, 3, 6, 7):
                for sa in (0, 1, 0x7F, 0x80, 0xFD, 0xFE, 0xFF, (seed * 37 + 5) & 0xFF):
                    check_id(R.id_compose(prio, pgn, sa), acc, sc)
                    n += 1
            if acc.violations:
                break
    elif kind == 'all_prio_sa':
        for pgn in (0, 0xEEFF, 0xEF00, 0xF000, 0x1FFFF, 0x20000, 0x3FFFF, 0xEA00, 0xEBFF, 0xEC34, 0x10000, 0x2F0FF,
                    (seed * 7919 + 0x1234) & 0x3FFFF):
            for prio in range(8):
                for sa in range(256):
                    check_id(R.id_compose(prio, pgn, sa), acc, sc)
                    n += 1
    acc.evals = n
    acc.nontrivial = set(range(lo, min(hi, lo + n)))      # distinct by construction: disjoint ranges
    acc.extra['identifier_evaluations'] = n
    acc.sample({'kind': kind, 'first': '%08X' % (lo if kind == 'all_ids' else R.id_compose(6, lo, 0x80)), 'count': n})
    return acc


def name_values(seed):
    vals = set()
    full = (1 << 64) - 1
    alt = 0xAAAAAAAAAAAAAAAA
    bgs = [0, full, alt, alt >> 1, (seed * 0x9E3779B97F4A7C15) & full]
    for (n, lo, w) in R.NAME_FIELDS:
        mask = ((1 << w) - 1) << lo
        rng = range(1 << w) if w <= 11 else list(range(0, 1 << w, 4099)) + [0, 1, (1 << w) - 1, (1 << w) - 2, 1 << (w - 1)]
        for bg in bgs:
            for f in rng:
                vals.add((bg & ~mask) | (f << lo))
    for i in range(64):
        vals.add(1 << i)
        vals.add(full ^ (1 << i))
        for j in range(i + 1, 64):
            vals.add((1 << i) | (1 << j))
    return sorted(vals)

_REUSED_NAME = [Name()]


def check_name(v, acc, sc):
    exp = R.name_fields(v)
    exp['reserved_bit'] = 0
    ev = R.name_value(exp)
    for how in ('value', 'bytes', 'the value setter', 'the bytes setter', 'fields'):
        if how == 'value':
            n = Name(value=v)
        elif how == 'bytes':
            n = Name(bytes=R.name_bytes(v))
        elif how == 'the value setter':
            n = Name()
            n.value = v
        elif how == 'the bytes setter':
            n = Name(value=0xFFFFFFFFFFFFFFFF)
            n.bytes = R.name_bytes(v)
        else:
            kw = {k: x for k, x in exp.items() if k != 'reserved_bit'}
            n = Name(**kw)
        got = {k: int(getattr(n, k)) for (k, _lo, _w) in R.NAME_FIELDS}
        if got != exp:
            bad = [k for k in exp if got[k] != exp[k]]
            acc.violation("NAME from %s: field %s at the wrong bit position" % (how, bad[0]), sc, None,
                          "value=%016X expected %r got %r" % (v, exp, got))
            return False
        if n.value != ev:
            acc.violation("NAME from %s: value does not round-trip" % how, sc, None, "value=%016X -> %X" % (v, n.value))
            return False
        if list(n.bytes) != R.name_bytes(ev):
            acc.violation("NAME from %s: bytes are not the 8 little-endian bytes of the value" % how, sc, None,
                          "value=%016X -> %r" % (v, list(n.bytes)))
            return False
    # one Name object re-used over the whole enumeration, alternately through the value and the bytes setter
    nr = _REUSED_NAME[0]
    if v & 1:
        nr.value = v
    else:
        nr.bytes = R.name_bytes(v)
    got = {k: int(getattr(nr, k)) for (k, _lo, _w) in R.NAME_FIELDS}
    if got != exp or nr.value != ev or list(nr.bytes) != R.name_bytes(ev):
        acc.violation("NAME set on a re-used object: fields / value / bytes disagree", sc, None,
                      "value=%016X expected %r got %r value %X" % (v, exp, got, nr.value))
        return False
    return True


def name_worker(item):
    kind, chunk, seed = item
    acc = Acc()
    sc = {'kind': kind, 'values': len(chunk)}
    if kind == 'name_roundtrip':
        for v in chunk:
            acc.case(('n', v))
            if not check_name(v, acc, sc):
                break
        acc.sample({'kind': kind, 'value': '%016X' % chunk[0]})
    else:
        # comparison used in arbitration = comparison of the 64-bit values; names are built the two
        # ways arbitration builds them (own NAME from fields, contender from the 8 received bytes)
        mine, others = chunk
        for a in mine:
            fa = {k: x for k, x in R.name_fields(a).items() if k != 'reserved_bit'}
            na = Name(**fa)
            ea = R.name_value(fa)
            for b in others:
                nb = Name(bytes=R.name_bytes(b))
                eb = b & ~(1 << 48)
                acc.case(('c', a, b), nontrivial=(ea != eb))
                if (na.value < nb.value) != (ea < eb) or (na.value == nb.value) != (ea == eb) or (na.value > nb.value) != (ea > eb):
                    acc.violation("NAME comparison differs from the comparison of the 64-bit values", sc, None,
                                  "a=%016X b=%016X" % (a, b))
                    return acc
        acc.sample({'kind': kind, 'a': '%016X' % mine[0], 'b': '%016X' % others[-1]})
    return acc


def arbitration_worker(item):
    """the comparison the address arbitration really uses: a real operational CA with NAME a (built from fields) receives an
    address-claimed frame for its address carrying NAME b (8 bytes): it must keep the address iff a < b as 64-bit values"""
    from .. import rt
    from ..net import Bus, Stack
    _k, mine, others, seed = item
    acc = Acc()
    sc = {'kind': 'arbitration'}
    CA = j1939.ControllerApplication
    for a in mine:
        fa = {k: x for k, x in R.name_fields(a).items() if k != 'reserved_bit'}
        fa['arbitrary_address_capable'] = 0
        ea = R.name_value(fa)
        for b in list(others) + [ea]:
            eb = b & ~(1 << 48)
            if ea == eb and b is not ea:
                continue
            w = rt.World()
            rt.activate(w)
            try:
                bus = Bus(w, base_lat=1e-4)
                st = Stack(bus, 'X')
                ca = CA(Name(**fa), 0x20)
                st.ecu.add_ca(controller_application=ca)
                w.run_for(0.002)
                ca.start(claim_delay=0.0)
                w.run_for(0.002)
                bus.ghost_node().send((6 << 26) | (0xEE << 16) | (0xFF << 8) | 0x20, bytes(R.name_bytes(eb)))
                w.run_for(0.002)
                kept = ca.state == CA.State.NORMAL and ca.device_address == 0x20
                acc.case(('arb', ea, eb), outcome=(kept,))
                if ea == eb:
                    # equal 64-bit values (an echo of the own claim, a duplicate): neither lower nor higher - the CA keeps the
                    # address and does not answer
                    n_own = len([f for f in bus.log if f.src == 'X'])
                    if not kept or n_own != 1:
                        acc.violation("a claim carrying the CA's own NAME is not treated as equal", sc, None,
                                      "value=%016X: %s, %d frame(s) sent by the CA (1 = its own claim)" % (ea, 'kept the address' if kept else 'gave the address up', n_own))
                        return acc
                    continue
                if kept != (ea < eb):
                    acc.violation("address arbitration does not compare the 64-bit NAME values", sc, None,
                                  "value=%016X (own) vs %016X (contender): %s" % (ea, eb, 'kept the address' if kept else 'gave the address up'))
                    return acc
            finally:
                w.shutdown()
    acc.sample({'kind': 'arbitration', 'own': '%016X' % mine[0], 'contender': '%016X' % others[-1]})
    return acc


def worker(item):
    if item[0] in ('all_ids', 'all_pgns', 'all_prio_sa'):
        return id_worker(item)
    if item[0] == 'arbitration':
        return arbitration_worker(item)
    return name_worker(item)


RULE = ("every identifier / NAME is also decoded into objects that are re-used over the whole enumeration (and the PGN object's fields are assigned to); identifier: quick = all 2^18 PGN values x 4 priorities x 8 source addresses + all 8x256 priority/source pairs "
        "x 13 boundary PGNs, thorough = all 2^29 identifiers; NAME: every value of every field up to 11 bits (21-bit "
        "field: 520 values incl. boundaries) over 5 backgrounds, all 1-bit, all 2-bit and all 63-bit-set values, each "
        "built from value / 8 LE bytes / fields; comparison on all ordered pairs of a boundary set; the arbitration itself on a real "
        "operational CA for all ordered pairs of a set of NAMEs that differ in one field or in two fields in opposite directions; every case "
        "distinct by construction, non-trivial = all (comparison: the two values differ)")
ASSUME = ["2^64 NAME values are not enumerable: field-wise exhaustive set over 5 backgrounds",
          "the extended-data-page bit is not represented by the PGN class: compared modulo that bit",
          "constructors only (the reserved bit is cleared by the constructor)"]


def run(tier, seed):
    items = []
    if tier == 'quick':
        step = 1 << 12
        items += [('all_pgns', lo, lo + step, seed) for lo in range(0, 1 << 18, step)]
        items += [('all_prio_sa', 0, 1, seed)]
    else:
        step = 1 << 21
        items += [('all_ids', lo, lo + step, seed) for lo in range(0, 1 << 29, step)]
    vals = name_values(seed)
    ch = 4000
    items += [('name_roundtrip', vals[i:i + ch], seed) for i in range(0, len(vals), ch)]
    bset = sorted(set([0, 1, 2, (1 << 21) - 1, 1 << 21, (1 << 32) - 1, 1 << 32, 1 << 35, 1 << 40, 1 << 47, 1 << 49,
                       1 << 56, 1 << 60, (1 << 63) - 1, 1 << 63, (1 << 63) + 1, (1 << 64) - 1, (1 << 64) - 2,
                       0x8000000000000001, 0x7FFFFFFFFFFFFFFE] + [(1 << i) - 1 for i in range(1, 64, 3)] +
                      [(1 << 63) | (1 << i) for i in range(0, 63, 4)] + vals[::max(1, len(vals) // 120)]))
    bset = [b & ~(1 << 48) for b in bset]
    bset = sorted(set(bset))
    for i in range(0, len(bset), 16):
        items.append(('name_compare', (bset[i:i + 16], bset), seed))
    # arbitration on a real CA: names that differ in one field, in two fields in opposite directions, boundary values
    arb = sorted(set([1, 2, 0x100, 0x201, 0x10000, 0x1FFFFF, 1 << 21, (1 << 21) + 5, 1 << 32, (1 << 32) + 1, (1 << 35) + 2, 1 << 40,
                      (1 << 40) + 3, (10 << 40) + 200, (20 << 40) + 100, (1 << 49) + 1, (1 << 56) + 7, (1 << 60) + 1, (1 << 63) - 1,
                      (1 << 62) + 9, 0x00FF00FF00FF00FF & ~(1 << 48), 0x7F00FF00FF00FF00 & ~(1 << 48), 0x0102030405060708 & ~(1 << 48),
                      0x0807060504030201 & ~(1 << 48), (seed * 0x9E3779B97F4A7C15) & ((1 << 63) - 1) & ~(1 << 48)] +
                     ([] if tier == 'quick' else [b & ((1 << 63) - 1) for b in bset[::6]])))
    arb = [x & ((1 << 63) - 1) for x in arb]
    for i in range(0, len(arb), 2):
        items.append(('arbitration', arb[i:i + 2], arb + [x | (1 << 63) for x in arb[::3]], seed))
    return run_check(PROP, tier, seed, 'exploration', items, worker, RULE, ASSUME,
                     bounds={'identifiers': '2^29' if tier != 'quick' else '2^18 PGNs x 32 + 8x256x13', 'name_values': len(vals),
                             'comparison_pairs': len(bset) ** 2})


def replay(rec):
    acc = Acc()
    sc = rec['scenario']
    print(rec.get('detail'))
    d = rec.get('detail') or ''
    import re
    m = re.search(r'can_id=([0-9A-F]{8})', d)
    if m:
        check_id(int(m.group(1), 16), acc, sc)
    m = re.search(r'value=([0-9A-F]{16})', d)
    if m:
        check_name(int(m.group(1), 16), acc, sc)
    if acc.violations:
        print("REPRODUCED:", acc.violations[0]['sig'], acc.violations[0]['detail'])
        print("VIOLATION property=%s replay=(this file)" % PROP)
        return 1
    print("no violation on this tree")
    return 0
