"""C18 - DM14 serves no data without the right key, surfaces errors, and recovers.
Fault enumeration: every failure kind x read/write, followed by well-formed operations on the same
objects; all histories up to a depth mixing failures and successes; all keys.  DESIGN.md section 4 / C18."""
import itertools

from ..runner import Acc, run_check
from ..dm14 import DmWorld, mem_bytes, key_of, SRV, CLI, DM16
from ..net import j1939
from . import c17

PROP = 'C18'
LAM = 0.02
ERRORS_DEFINED = sorted(j1939.ErrorInfo.keys())
ERRORS_UNDEFINED = [0x3, 0x9999, 0xABCDEF]


def judge(d, ops):
    probs = []
    served = list(d.served)
    pcalls = list(d.proceed_calls)
    for i, op in enumerate(ops):
        if i >= len(d.results):
            probs.append("client call %d never returned" % (i + 1))
            break
        r = d.results[i]
        v = op.get('variant', 'ok')
        what = "%s (%s)" % (op['cmd'], v)
        t0, t1 = r['t0'], r['t1']
        frames = d.bus.log[r['frame0']:r.get('frame1', len(d.bus.log))]
        my_proceed = [c for c in pcalls if t0 <= c[0] <= t1 + 1.4]
        my_served = [s for s in served if True]
        if v == 'ok':
            sub = c17.judge_one(d, op, r, served)
            probs += ["after %s: %s" % (_hist(ops[:i]), p) if i else p for p in sub]
            continue
        # ---- a failure must surface as an exception
        if 'exc' not in r:
            if not (v == 'refuse_respond' and op.get('edcp', 7) not in (6, 7)):
                probs.append("%s returned %r instead of raising" % (what, r.get('ret')))
        else:
            text = r['exc'][1]
            if v == 'wrongkey' and not ('0x1003' in text or 'invalid key' in text.lower()):
                probs.append("%s: exception does not name the error code 0x1003: %r" % (what, text[:70]))
            if v == 'refuse_proceed' and '0x100' not in text:
                probs.append("%s: exception does not name the error code 0x100: %r" % (what, text[:70]))
            if v == 'refuse_respond' and op.get('edcp', 7) in (6, 7) and hex(op['error']) not in text:
                probs.append("%s: exception does not name the error code %s: %r" % (what, hex(op['error']), text[:70]))
            if v == 'absent':
                if 'No response' not in text:
                    probs.append("%s: exception is not 'No response': %r" % (what, text[:70]))
                if t1 - t0 > op.get('timeout', 1) + LAM:
                    probs.append("%s: the call returned %.2f s after it was made (timeout %.1f s)" % (what, t1 - t0, op.get('timeout', 1)))
        # ---- nothing is served without the right key / after a refusal
        dm16_from_server = [f for f in frames if f.src == 'S' and ((f.pf == 0xD7) or (f.pf == 0xEC and f.data[0] == 16))]
        if v == 'wrongkey':
            if my_proceed:
                probs.append("%s: the request was handed to the application although the key was wrong" % what)
            if dm16_from_server:
                probs.append("%s: data was served although the key was wrong" % what)
        if v in ('refuse_proceed', 'refuse_respond') and dm16_from_server:
            probs.append("%s: data was served although the application refused" % what)
        if v in ('wrongkey', 'refuse_proceed', 'absent'):
            while served and served[0][0] != 'refused' and False:
                served.pop(0)
        if v == 'refuse_respond':
            if served and served[0][0] == 'refused':
                served.pop(0)
        for c in my_proceed:
            if c in pcalls:
                pcalls.remove(c)
    probs += d.dead()
    return probs


def _hist(ops):
    return "[" + ", ".join("%s %s" % (o['cmd'], o.get('variant', 'ok')) for o in ops) + "]"


def run_one(sc, seed=0, keep=False):
    d = DmWorld(sc['cfg'])
    try:
        d.run(sc['ops'])
        probs = judge(d, sc['ops'])
        outcome = ([(f.src, f.can_id, f.data) for f in d.bus.log], d.snapshot_states())
        return probs, outcome, d.trace() if keep else None
    finally:
        d.close()


def preempt_worker(item):
    """a failing operation with every party on a thread of its own; the client's receive thread, or the client's application
    thread, is suspended for 2 ms at every source line it executes in the DM14 code: the failure still surfaces as an exception
    naming the code and the following operations succeed"""
    _k, sd, ops, thread, seed = item
    acc = Acc()
    base = {'seed': sd, 'base_lat': 0.2e-3, 'rx_threads': True}
    counts = []
    for _ in range(2):
        d = DmWorld(dict(base, preempt={'thread': thread, 'point': 0}))
        try:
            d.run([dict(o) for o in ops])
            counts.append(d.pre.count)
            p0 = judge(d, ops)
        finally:
            d.close()
    if counts[0] != counts[1] or p0:
        acc.violation("HARNESS: DM14 pre-emption baseline not clean / not reproducible", {'cfg': base, 'ops': ops}, None, p0[:2] + [repr(counts)])
        return acc
    for pt in range(1, counts[0] + 1):
        sc = {'cfg': dict(base, preempt={'thread': thread, 'point': pt, 'hold': 0.002}), 'ops': [dict(o) for o in ops]}
        probs, outcome = run_one(sc, seed)[:2]
        acc.case(repr(sc), nontrivial=True, outcome=outcome)
        acc.add('transactions', len(ops))
        if probs:
            acc.violation(csig(probs), sc, None, probs[:3])
    acc.sample({'scenario': {'cfg': base, 'ops': ops}, 'thread': thread, 'line_events': counts[0]})
    return acc


def timeout_grid_worker(item):
    """the caller's time-out expires at every point of a transaction that is slowed down by a blocking driver (every party on
    its own thread; the handler of the receive thread may be inside a send call at that moment): whatever the first call
    returns or raises, the next reads - of another address, then of the first one - return exactly their own data"""
    _k, sd, cmd, seed = item
    acc = Acc()
    for cost in (0.005, 0.02):
        for i in range(1, 41):
            tau = i * cost / 2.0 + 0.0013
            first = c17.rd(0x1000, 4) if cmd == 'read' else c17.wr(0x1000, 4)
            first.update(timeout=tau, gap=1.6)
            ops = [first, c17.rd(0x2000, 4), c17.rd(0x1000, 4)]
            sc = {'cfg': {'seed': sd, 'base_lat': 0.2e-3, 'send_cost': cost, 'send_visible': 0.0, 'rx_threads': True}, 'ops': ops,
                  'part': 'time-out grid'}
            d = DmWorld(sc['cfg'])
            try:
                d.run(ops)
                probs = []
                for k in (1, 2):
                    if k >= len(d.results):
                        probs.append("client call %d never returned" % (k + 1))
                        break
                    r = d.results[k]
                    want = mem_bytes(ops[k]['address'], 4)
                    if 'exc' in r:
                        continue        # the server still holds the abandoned transaction (it has no time-out of its own) and
                        #                 refuses: not among the failures the property lists - only wrong DATA is judged here
                    if r.get('ret') != want:
                        probs.append("after a call that timed out %.1f ms into its transaction the %s read returned %r instead of its own data"
                                     % (tau * 1e3, 'next' if k == 1 else 'second next', r.get('ret')))
                        break
                probs += d.dead()
                outcome = (tuple((f.src, f.can_id, f.data) for f in d.bus.log[:12]), repr(d.results[0].get('ret', d.results[0].get('exc')) if d.results else None))
            finally:
                d.close()
            acc.case(repr(sc), nontrivial=True, outcome=outcome)
            acc.add('transactions', 3)
            if probs:
                import re
                acc.violation(re.sub(r'[0-9.]+ ms', 'N ms', probs[0].split(' returned ')[0]), sc, None, probs[:3])
    acc.sample({'part': 'time-out grid', 'seed': sd, 'cmd': cmd})
    return acc


def scripted_one(sc, keep=False):
    """the real client against a scripted (foreign) DM14 server: its first answer is an error response - status 'busy' (1)
    or 'operation failed' (5), any first byte, an error code with an error indicator (EDCP 6 / 7) -; afterwards it serves a
    single-frame read correctly.  The failed call raises naming the code; the next read succeeds."""
    from .. import rt
    from ..net import Bus, Stack, Peer
    w = rt.World()
    rt.activate(w)
    try:
        bus = Bus(w, base_lat=1e-3)
        C = Stack(bus, 'C')
        cca = C.add_ca(CLI, name_value=0x501)
        cli = j1939.MemoryAccess(cca)
        client = cli if sc.get('client', 'facade') == 'facade' else cli.query
        st = {'n': 0}
        data_ok = [0x21, 0x22, 0x23, 0x24]

        def dm15(b0, status, err=0xFFFFFF, edcp=0xFF):
            d = [b0, (1 << 4) + (status << 1) + 1, err & 0xFF, (err >> 8) & 0xFF, (err >> 16) & 0xFF, edcp, 0xFF, 0xFF]
            srv.send((6 << 26) | (0xD8 << 16) | (CLI << 8) | SRV, bytes(d))

        def on(fr):
            if not fr.ext or fr.pf != 0xD9 or fr.ps != SRV:
                return
            cmd = ((fr.data[1] - 1) & 0x0F) >> 1
            if cmd == 4:
                return                                   # the client's closing message
            st['n'] += 1
            if st['n'] == 1:
                b0 = {'zero': 0, 'count': fr.data[0], 'other': 0x55}[sc['b0']]
                w.at(w.now + 1e-3, lambda: dm15(b0, sc['status'], sc['error'], sc['edcp']))
            elif cmd == 1:
                # a well-formed single-frame read: proceed, data, operation completed
                n = fr.data[0]
                w.at(w.now + 1e-3, lambda: dm15(n, 0))
                w.at(w.now + 2e-3, lambda: srv.send((7 << 26) | (0xD7 << 16) | (CLI << 8) | SRV, bytes([n] + data_ok[:n] + [0xFF] * (7 - n))))
                w.at(w.now + 3e-3, lambda: dm15(0, 4))
        srv = Peer(bus, 'S', on)
        w.run_for(0.005)
        results = []

        def app():
            for k in range(2):
                try:
                    if k == 0 and sc['cmd'] == 'write':
                        r = client.write(SRV, 1, 0x1000, [1, 2, 3, 4], 1, max_timeout=1)
                    else:
                        r = client.read(SRV, 1, 0x1000, 4, 1, False, True, max_timeout=1)
                    results.append(('ret', None if r is None else list(r)))
                except rt.Killed:
                    raise
                except BaseException as e:
                    results.append(('exc', type(e).__name__, str(e)))
                w.sleep(1.5)
        w.spawn(app, name='cliapp')
        w.run_for(6.0)
        probs = []
        if len(results) < 2:
            probs.append("client call %d never returned" % (len(results) + 1))
        else:
            r0, r1 = results
            if r0[0] != 'exc':
                probs.append("an error response (status %d, error %s, EDCP %d) from the server made %s return %r instead of raising"
                             % (sc['status'], hex(sc['error']), sc['edcp'], sc['cmd'], r0[1]))
            elif hex(sc['error']) not in r0[2]:
                probs.append("%s: the exception does not name the error code %s: %r" % (sc['cmd'], hex(sc['error']), r0[2][:70]))
            if r1 != ('ret', data_ok):
                probs.append("after an error response the next read did not succeed: %r" % (r1,))
            extra = [f for f in bus.log if f.src == 'C' and f.pf == 0xD7]
            if extra:
                probs.append("the client sent its data (DM16) to a server that had answered with an error response")
        for lt in w.threads:
            if lt.exc is not None:
                probs.append("%s died: %s" % (lt.name, lt.exc_type))
        return probs, [f.brief() for f in bus.log] + [repr(results)] if keep else None
    finally:
        w.shutdown()


def scripted_worker(item):
    _k, chunk, seed = item
    acc = Acc()
    for sc in chunk:
        probs, _ = scripted_one(sc)
        acc.case(repr(sc), nontrivial=True, outcome=len(probs))
        if probs:
            acc.violation(csig(probs), dict(sc, part='scripted server'), None, probs[:3])
    acc.sample({'scenario': dict(chunk[0], part='scripted server')})
    return acc


def csig(probs):
    import re
    p = probs[0]
    p = re.sub(r'of \d+ byte\(s\)', 'of N byte(s)', p)
    p = re.sub(r": '.*", '', p)
    p = re.sub(r'returned .* instead', 'returned instead', p)
    p = re.sub(r'0x[0-9a-fA-F]+', '0xN', p)
    p = re.sub(r'raised (\w+): .*', r'raised \1', p)
    p = re.sub(r'[0-9.]+ s', 'T s', p)
    return p[:140]


def worker(item):
    if item[0] == 'scripted':
        return scripted_worker(item)
    if item[0] == 'preempt':
        return preempt_worker(item)
    if item[0] == 'timeout_grid':
        return timeout_grid_worker(item)
    chunk, seed = item
    acc = Acc()
    for sc in chunk:
        probs, outcome = run_one(sc, seed)[:2]
        acc.case(repr(sc), nontrivial=any(o.get('variant', 'ok') != 'ok' for o in sc['ops']), outcome=outcome)
        acc.add('transactions', len(sc['ops']))
        if probs:
            acc.violation(csig(probs), sc, None, probs[:3])
    acc.sample({'scenario': chunk[0]})
    return acc


def fail(cmd, variant, n=4, **kw):
    op = c17.rd(0x1000, n) if cmd == 'read' else c17.wr(0x1000, n)
    op['variant'] = variant
    op.update(kw)
    return op


def ok(cmd, n=4):
    return c17.rd(0x1000, n) if cmd == 'read' else c17.wr(0x1000, n)


def scenarios(tier, seed):
    quick = tier == 'quick'
    out = []
    recover = [ok('read'), ok('write'), ok('read', 9), ok('write', 9)]
    # (1) every failure kind x read/write (single and multi-packet), then recovery on the same objects
    for sd in (None, 0xA55A):
        kinds = ['refuse_proceed', 'refuse_respond', 'absent'] + (['wrongkey'] if sd is not None else [])
        for cmd in ('read', 'write'):
            for n in (4, 9):
                for v in kinds:
                    kw = {'error': 0x101, 'edcp': 7} if v == 'refuse_respond' else {}
                    out.append({'cfg': {'seed': sd}, 'ops': [fail(cmd, v, n, **kw)] + [dict(o) for o in recover]})
                    out.append({'cfg': {'seed': sd, 'client': 'query'}, 'ops': [fail(cmd, v, n, **kw), ok(cmd, n)]})
    # (1b) the same with every party on a thread of its own and a blocking driver (frame on the bus when the call returns /
    #      at once with the call returning later): answers are handled while the call that triggered them has not returned
    for sd in (None, 0xA55A):
        kinds = ['refuse_proceed', 'refuse_respond', 'absent'] + (['wrongkey'] if sd is not None else [])
        for cmd in ('read', 'write'):
            for n in (4, 9):
                for v in kinds:
                    kw = {'error': 0x101, 'edcp': 7} if v == 'refuse_respond' else {}
                    for cost in (0.3e-3, 3e-3):
                        for vis in (0.0, 1.0):
                            out.append({'cfg': {'seed': sd, 'base_lat': 0.2e-3, 'send_cost': cost, 'send_visible': vis, 'rx_threads': True},
                                        'ops': [fail(cmd, v, n, **kw), ok('read'), ok('write', 9)]})
    # (2) every defined error code and three undefined ones x EDCP {6, 7, other}
    for cmd in ('read', 'write'):
        for err in ERRORS_DEFINED + ERRORS_UNDEFINED:
            for edcp in (6, 7, 0xFF, 0):
                if quick and edcp in (0,) and err not in (0x101, 0x1003):
                    continue
                out.append({'cfg': {'seed': None if err % 2 else 0xA55A},
                            'ops': [fail(cmd, 'refuse_respond', 4, error=err, edcp=edcp), ok('read'), ok('write')]})
    # (3) keys: boundary keys (thorough: all 2^16) against the seeds
    for sd in ((0xA55A,) if quick else (1, 0xA55A, 0xFFFE)):
        right = key_of(sd)
        keys = sorted(set([0, 1, 0xFFFF, 0xFFFE, (right + 1) & 0xFFFF, (right - 1) & 0xFFFF, right ^ 0x8000, right ^ 1,
                           ((right & 0xFF) << 8) | (right >> 8), sd, right]))
        if not quick:
            keys = list(range(1 << 16))
        for k in keys:
            for cmd in (('read',) if (not quick and k % 16) else ('read', 'write')):
                if k == right:
                    out.append({'cfg': {'seed': sd}, 'ops': [ok(cmd)]})
                else:
                    out.append({'cfg': {'seed': sd}, 'ops': [fail(cmd, 'wrongkey', 4, key=k), ok(cmd)]})
    # (4) all histories up to depth 3 (thorough 5) over {ok, every failure kind} x {read, write}, then a recovery probe
    depth = 3 if quick else 5
    for sd in (None, 0xA55A):
        alpha = []
        for cmd in ('read', 'write'):
            alpha.append(ok(cmd))
            for v in ['refuse_proceed', 'refuse_respond', 'absent'] + (['wrongkey'] if sd is not None else []):
                alpha.append(fail(cmd, v, 4, **({'error': 0x22, 'edcp': 6} if v == 'refuse_respond' else {})))
        if not quick:
            alpha = alpha[:1] + alpha[1:5] + alpha[5:6] + alpha[6:]
        for k in range(2, depth + 1):
            for h in itertools.product(alpha, repeat=k):
                if all(o.get('variant', 'ok') == 'ok' for o in h):
                    continue
                if k >= 4 and (sum(1 for o in h if o.get('variant', 'ok') != 'ok') > 3):
                    continue
                out.append({'cfg': {'seed': sd}, 'ops': [dict(o) for o in h] + [ok('read'), ok('write', 9)]})
    return out


RULE = ("histories between a real client and a real server MemoryAccess: every failure kind (wrong key, refusal at the proceed callback, "
        "refusal at respond() with an error code, absent server) x read / write x single / multi-packet followed by four well-formed "
        "operations on the same objects; every defined error code and three undefined ones x EDCP {6,7,0xFF,0}; boundary keys (thorough: all "
        "2^16 keys x 3 seeds); all histories up to depth 3 (thorough 5) over {ok, every failure kind} x {read, write} each followed by a "
        "recovery read and write; non-trivial if the history contains a failure")
ASSUME = ["'naming the error code' = the exception text contains hex(code) (or 'invalid key' for 0x1003); required for EDCP 6 / 7 (error "
          "indicator valid); other EDCP values only have to recover", "'within the caller's timeout' is judged in virtual time with 20 ms latency",
          "a failed operation is followed by a 1.5 s idle gap (transport timeouts included)"]


def run(tier, seed):
    sc = scenarios(tier, seed)
    n = max(1, len(sc) // 200)
    items = [(sc[i::n], seed) for i in range(n)]
    scr = []
    for cmd in ('read', 'write'):
        for status in (1, 5):
            for b0 in ('zero', 'count', 'other'):
                for error in (0x11, 0x12, 0x100, 0x1003, 0x9999):
                    for edcp in (6, 7):
                        for client in ('facade', 'query'):
                            scr.append({'cmd': cmd, 'status': status, 'b0': b0, 'error': error, 'edcp': edcp, 'client': client})
    items += [('scripted', scr[i::8], seed) for i in range(8)]
    for sd in (None, 0xA55A):
        for cmd in ('read', 'write'):
            items.append(('timeout_grid', sd, cmd, seed))
    for (sd, v) in ((0xA55A, 'wrongkey'), (None, 'refuse_respond'), (0xA55A, 'refuse_respond'), (None, 'refuse_proceed')):
        for cmd in ('read', 'write'):
            kw = {'error': 0x101, 'edcp': 7} if v == 'refuse_respond' else {}
            for thread in ('R:C', 'cliapp'):
                items.append(('preempt', sd, [fail(cmd, v, 4, **kw), ok('read')], thread, seed))
    return run_check(PROP, tier, seed, 'fault_enumeration', items, worker, RULE, ASSUME,
                     bounds={'history_depth': 3 if tier == 'quick' else 5, 'keys': 'boundary' if tier == 'quick' else 'all 2^16 x 3 seeds'})


def replay(rec):
    if rec['scenario'].get('part') == 'time-out grid':
        sc = rec['scenario']
        d = DmWorld(sc['cfg'])
        try:
            d.run(sc['ops'])
            print("\n".join(d.trace()))
            bad = [k for k in (1, 2) if k >= len(d.results) or ('exc' not in d.results[k] and d.results[k].get('ret') != mem_bytes(sc['ops'][k]['address'], 4))]
        finally:
            d.close()
        if bad:
            print("REPRODUCED: read %d after the timed-out call did not return its own data" % (bad[0] + 1))
            print("VIOLATION property=%s replay=(this file)" % PROP)
            return 1
        print("no violation on this tree")
        return 0
    if rec['scenario'].get('part') == 'scripted server':
        probs, trace = scripted_one(rec['scenario'], keep=True)
        outcome = None
    else:
        probs, outcome, trace = run_one(rec['scenario'], rec.get('seed', 0), keep=True)
    print("\n".join(trace))
    if probs:
        print("REPRODUCED: " + "; ".join(probs[:4]))
        print("VIOLATION property=%s replay=(this file)" % PROP)
        return 1
    print("no violation on this tree")
    return 0
