"""C08 - transfer outcome does not depend on where reception pre-empts the job thread.
Every source line executed by a stack's job thread inside the library during a transfer is used
as a pre-emption point (sys.settrace line events): the thread is held there for 0.2 / 1 / 5 ms of
bus time while the rest of the world - including reception on the same stack - goes on.
DESIGN.md section 4 / C08."""
import os

from .. import rt
from ..loader import REPO
from ..runner import Acc, run_check
from ..scen import Driver, sig_of
from .c01 import msg

PROP = 'C08'
HOLDS = [0.0002, 0.001, 0.005]
HOLDS_FAULT = [0.001, 0.005]
LIBDIR = os.path.join(os.path.realpath(REPO), 'j1939') + os.sep


class Preempt:
    """trace factory: numbers the line events of job thread #stack inside the library; holds the thread at the
    chosen ones.  points = [(line event number, hold duration)]"""

    def __init__(self, stack, points):
        # stack: int = the job thread of that stack; ['R', i] = the (controlled) receive thread of stack i
        self.kind = 'J' if isinstance(stack, int) else stack[0]
        self.stack = stack if isinstance(stack, int) else stack[1]
        self.points = dict(points)
        self.count = 0
        self.where = []
        self.world = None
        self.seen = {'J': 0, 'R': 0}

    def __call__(self, lt, idx):
        if lt.kind not in self.seen:
            return None
        k = self.seen[lt.kind]
        self.seen[lt.kind] += 1
        if lt.kind != self.kind or k != self.stack:
            return None
        me = self

        def tracer(frame, event, arg):
            fn = frame.f_code.co_filename
            if not fn.startswith(LIBDIR):
                return None
            if event == 'line':
                me.count += 1
                d = me.points.get(me.count)
                if d is not None:
                    me.where.append("%s:%d" % (os.path.basename(fn), frame.f_lineno))
                    rt.CUR.hold(d)
            return tracer
        return tracer


def two(dll, wa, wb):
    return {'dll': dll, 'base_lat': 1e-4,
            'stacks': [{'name': 'A', 'cas': [0x10], 'win': wa}, {'name': 'B', 'cas': [0x20], 'win': wb}]}


def run_one(sc, stack, points, seed=0, keep=False):
    pre = Preempt(stack, points)
    d = Driver(sc, (), seed, trace_factory=pre)
    try:
        if sc.get('drop'):
            sc = dict(sc, horizon=4.6)
            d.sc = sc
        d.run()
        if sc.get('drop'):
            # a lost frame: exact payload or nothing, everything given up, job threads alive (C06's outcome)
            probs = list(d.probs)
            jd = [p for p in d.net.judge_deliveries() if 'unexpected []' not in p]
            if jd:
                probs.append("receiver got a payload that is not the one sent: " + jd[0])
            probs += d.net.job_problems()
            probs += d.net.idle_problems()
        else:
            probs = d.standard_problems()
        return pre.count, probs, d.net.outcome(), pre.where, d.net.trace() if keep else None
    finally:
        d.net.close()


def csig(probs, where):
    if probs[0].startswith('receiver got a payload'):
        return 'receiver got a payload that is not the one sent'
    return sig_of(probs)


def worker(item):
    sc, stack, lo, hi, pairs, seed = item
    acc = Acc()
    if pairs is None:
        for i in range(lo, hi):
            for dur in (HOLDS_FAULT if sc.get('drop') else HOLDS):
                n, probs, outcome, where, _ = run_one(sc, stack, [(i, dur)], seed)
                acc.case((repr(sc), stack, i, dur), outcome=outcome)
                if probs:
                    acc.violation(csig(probs, where), dict(sc, preempt={'stack': stack, 'points': [[i, dur]]}), None,
                                  probs[:3] + ["%s thread held at %s" % ('job' if isinstance(stack, int) else 'receive', where)])
    else:
        for (i, j) in pairs:
            for (d1, d2) in ((0.001, 0.001), (0.005, 0.0002)):
                n, probs, outcome, where, _ = run_one(sc, stack, [(i, d1), (j, d2)], seed)
                acc.case((repr(sc), stack, i, j, d1, d2), outcome=outcome)
                if probs:
                    acc.violation(csig(probs, where), dict(sc, preempt={'stack': stack, 'points': [[i, d1], [j, d2]]}), None,
                                  probs[:3] + ["job thread held at %s" % where])
    acc.sample({'scenario': sc, 'stack': stack, 'line_events': [lo, hi], 'holds_ms': [h * 1e3 for h in HOLDS]})
    return acc


def scenarios(tier):
    quick = tier == 'quick'
    out = []
    for dll in ('j1939-21', 'j1939-22'):
        seg = 7 if dll == 'j1939-21' else 60
        for npk in ((3,) if quick else (2, 3, 4)):
            size = seg * npk - 2
            for (wa, wb) in ((1, 1), (2, 2), (255, 255)):
                sc = two(dll, wa, wb)
                sc['msgs'] = [msg(0x10, 'p2p', 0x20, size)]
                out.append(sc)
            sc = two(dll, 1, 1)
            sc['msgs'] = [msg(0x10, 'bam2', 0x33, size)]
            out.append(sc)
        if not quick:
            sc = two(dll, 2, 3)
            sc['msgs'] = [msg(0x10, 'p2p', 0x20, seg * 3 - 1), msg(0x20, 'p2p', 0x10, seg * 2 + 1)]
            out.append(sc)
        # two outgoing sessions of one stack in the same pass (to two different stacks), one of them with another window
        sc = {'dll': dll, 'base_lat': 1e-4,
              'stacks': [{'name': 'A', 'cas': [0x10, 0x11], 'win': 2}, {'name': 'B', 'cas': [0x20], 'win': 1},
                         {'name': 'C', 'cas': [0x30], 'win': 255}],
              'msgs': [msg(0x10, 'p2p', 0x20, seg * 3 - 2), msg(0x11, 'p2p', 0x30, seg * 2 - 1)]}
        out.append(sc)
        # a second message on the same pair submitted 0.3 ms after the acknowledgement of the first is on the bus: it lands
        # while the (held) job thread is inside the pass that removes the finished session
        for (wa, wb) in ((1, 1), (255, 255)):
            base = two(dll, wa, wb)
            base['msgs'] = [msg(0x10, 'p2p', 0x20, seg * 2 - 2)]
            nfr = baseline_frames(base)
            sc = dict(base, late_ok=True)
            sc['msgs'] = [msg(0x10, 'p2p', 0x20, seg * 2 - 2),
                          dict(msg(0x10, 'p2p', 0x20, seg * 2 - 1, pat=1), after=nfr, after_dt=3e-4, may_refuse=True)]
            out.append(sc)
        # a broadcast whose originator answers a frame of another node with its NEXT broadcast from inside the subscriber
        # callback (receive thread) while its job thread is in the pass that sends the last packet of the first one
        base = two(dll, 1, 1)
        bint = 0.05 if dll == 'j1939-21' else 0.01
        sc = dict(base, late_ok=True)
        sc['msgs'] = [msg(0x10, 'bam2', 0x31, seg * 2 - 1),
                      dict(msg(0x20, 'p2p', 0x10, 8, pat=2), after=2, after_dt=bint + 0.0002),
                      dict(msg(0x10, 'bam2', 0x31, seg * 2 - 2, pat=1), on={'tag': 'A.ca10', 'kind': 'data'}, may_refuse=True)]
        out.append(sc)
        # pre-emption while timeouts are being served: the same transfers with every single frame lost
        for (wa, wb) in (((1, 1),) if quick else ((1, 1), (2, 2), (255, 255))):
            npk = 2 if quick else 3
            base = two(dll, wa, wb)
            base['msgs'] = [msg(0x10, 'p2p', 0x20, seg * npk - 2)]
            nfr = baseline_frames(base)
            for k in range(nfr):
                sc = dict(base, drop=[k])
                out.append(sc)
    return out


def scenarios_rx(tier):
    """the mirror image: the receive thread is held part-way through handling a frame (after it has woken the job thread,
    between two updates of a session) while the job thread runs its pass"""
    quick = tier == 'quick'
    out = []
    for dll in ('j1939-21', 'j1939-22'):
        seg = 7 if dll == 'j1939-21' else 60
        for (wa, wb) in (((1, 1), (255, 255)) if quick else ((1, 1), (2, 2), (255, 255))):
            sc = two(dll, wa, wb)
            sc['rx_threads'] = True
            sc['msgs'] = [msg(0x10, 'p2p', 0x20, seg * 3 - 2)]
            out.append(sc)
        sc = two(dll, 1, 1)
        sc['rx_threads'] = True
        sc['msgs'] = [msg(0x10, 'bam2', 0x33, seg * 3 - 2)]
        out.append(sc)
        if not quick:
            sc = two(dll, 2, 3)
            sc['rx_threads'] = True
            sc['msgs'] = [msg(0x10, 'p2p', 0x20, seg * 3 - 1), msg(0x20, 'p2p', 0x10, seg * 2 + 1)]
            out.append(sc)
    return out


def baseline_frames(sc):
    d = Driver(sc, (), 0)
    try:
        d.run()
        return len(d.net.bus.log)
    finally:
        d.net.close()


RULE = ("scenario = layer x {RTS/CTS with windows 1, 2, all; BAM} x 3 (thorough 2..4) packets, bus latency 0.1 ms, plus the same RTS/CTS "
        "transfers with every single frame lost (so that the passes that serve timeouts and aborts are pre-empted too); a baseline run "
        "numbers the line events the job thread of each stack executes inside the library; then every line event x hold duration "
        "{0.2,1,5 ms} x either stack is one run with one pre-emption (exhaustive); thorough adds all ordered pairs of line events on the "
        "smallest scenario of each kind; mirrored scenarios (controlled receive threads): every line event of either stack's receive "
        "thread inside the library x hold, while the job thread runs; distinct by (scenario, thread, line event(s), hold); all non-trivial")
ASSUME = ["pre-emption granularity is a source line of the library executed by the job thread (or, in the mirrored scenarios, by the receive thread); one thread is pre-empted per run",
          "while held, every other thread of the world runs normally (including the receive handler of the same stack)",
          "line-event numbering is checked to be reproducible (baseline executed twice)"]


def run(tier, seed):
    items = []
    nline = {}
    for sc in scenarios(tier):
        for stack in range(len(sc['stacks']) if len(sc['stacks']) == 2 else 1):
            n1 = run_one(sc, stack, [], seed)[0]
            n2 = run_one(sc, stack, [], seed)[0]
            if n1 != n2:
                print("HARNESS-ERROR property=%s line-event numbering not reproducible (%d vs %d)" % (PROP, n1, n2))
                return 2
            nline[(repr(sc), stack)] = n1
            step = 25
            for lo in range(1, n1 + 1, step):
                items.append((sc, stack, lo, min(lo + step, n1 + 1), None, seed))
    for sc in scenarios_rx(tier):
        for stack in (0, 1):
            tgt = ['R', stack]
            n1 = run_one(sc, tgt, [], seed)[0]
            n2 = run_one(sc, tgt, [], seed)[0]
            if n1 != n2:
                print("HARNESS-ERROR property=%s line-event numbering of the receive thread not reproducible (%d vs %d)" % (PROP, n1, n2))
                return 2
            nline[(repr(sc), 'R%d' % stack)] = n1
            for lo in range(1, n1 + 1, 25):
                items.append((sc, tgt, lo, min(lo + 25, n1 + 1), None, seed))
    if tier != 'quick':
        for dll in ('j1939-21', 'j1939-22'):
            seg = 7 if dll == 'j1939-21' else 60
            for kind in ('p2p', 'bam2'):
                sc = two(dll, 1, 1)
                sc['msgs'] = [msg(0x10, kind, 0x20 if kind == 'p2p' else 0x33, seg * 2 - 1)]
                for stack in (0, 1):
                    n1 = run_one(sc, stack, [], seed)[0]
                    allp = [(i, j) for i in range(1, n1 + 1) for j in range(i + 1, n1 + 1)]
                    for k in range(0, len(allp), 400):
                        items.append((sc, stack, 0, 0, allp[k:k + 400], seed))
    return run_check(PROP, tier, seed, 'exploration', items, worker, RULE, ASSUME,
                     bounds={'preemptions_per_run': 1 if tier == 'quick' else 2, 'hold_ms': [0.2, 1, 5],
                             'line_events_per_job_thread': sorted(set(nline.values()))})


def replay(rec):
    sc = dict(rec['scenario'])
    pre = sc.pop('preempt')
    n, probs, outcome, where, trace = run_one(sc, pre['stack'], [tuple(p) for p in pre['points']], rec.get('seed', 0), keep=True)
    print("\n".join(trace))
    print("thread %r held at %s" % (pre['stack'], where))
    if probs:
        print("REPRODUCED: " + "; ".join(probs[:3]))
        print("VIOLATION property=%s replay=(this file)" % PROP)
        return 1
    print("no violation on this tree")
    return 0
