#!/bin/bash
# usage: tools/verify_seeded.sh <id> <PROP>    confirms a sub-agent's mutation in its scratch worktree at /repo's HEAD:
#   demo passes without it, pinned tests pass with it, demo fails with it; then files it under /verif/seeded/<id>/
id=$1; prop=$2
WT=/tmp/wt_$id; OUT=/tmp/mut/$id
cd $WT || exit 9
git checkout -q -- . && git checkout -q --detach main || exit 9
r0=$(PYTHONPATH=$WT timeout 120 /venv/bin/python $OUT/demo.py >/tmp/mut/$id/demo_clean.log 2>&1; echo $?)
if ! git apply $OUT/patch.diff 2>/dev/null; then patch -p1 -s --no-backup-if-mismatch < $OUT/patch.diff || { echo "$id: patch does not apply at HEAD"; exit 8; }; fi
git diff > $OUT/patch_head.diff
t=$(timeout 900 /venv/bin/python -m pytest -q -p no:cacheprovider --timeout=900 2>&1 | tail -1)
r1=$(PYTHONPATH=$WT timeout 120 /venv/bin/python $OUT/demo.py >/tmp/mut/$id/demo_mut.log 2>&1; echo $?)
echo "$id: demo clean rc=$r0, tests with mutation: $t, demo with mutation rc=$r1"
if [ "$r0" = 0 ] && [ "$r1" != 0 ] && echo "$t" | grep -q "116 passed"; then
  mkdir -p /verif/seeded/$id
  cp $OUT/patch_head.diff /verif/seeded/$id/patch.diff; cp $OUT/demo.py /verif/seeded/$id/demo.py; cp $OUT/notes.md /verif/seeded/$id/notes.md 2>/dev/null
  echo "{\"id\": \"$id\", \"property\": \"$prop\", \"verified\": \"demo rc=0 on HEAD, rc=$r1 with patch; pinned suite with patch: $t\", \"repo_head\": \"$(git -C /repo rev-parse --short HEAD)\"}" > /verif/seeded/$id/meta.json
  echo "$id: KEPT"
else
  echo "$id: NOT CONFIRMED"
fi
cd /; git -C /repo worktree remove --force $WT
