"""C14 - PGN requests reach exactly the addressed operational CAs; claims are answered.
Exhaustive input enumeration (requested PGN x destination x requester x responder configuration)
on real stacks against the statement.  DESIGN.md section 4 / C14."""
from .. import rt
from ..runner import Acc, run_check
from ..net import Bus, Stack, j1939
from .. import refcodec as R

PROP = 'C14'
CA = j1939.ControllerApplication
NORMAL = CA.State.NORMAL
ADDRESSCLAIM = 0xEE00

# responder stacks: list of (state, address) per CA, number of request callbacks per CA
RESP = [
    [('N', 0x20)],
    [('N', 0x20), ('N', 0x21)],
    [('N', 0x20), ('0', 0x30)],
    [('N', 0x20), ('C', 0x81), ('N', 0x22)],
    [('0', 0x30)],
    [('C', 0x81)],
    [('N', 0x20), ('W', 0x85)],
    [('M', 0x90), ('N', 0x20)],          # 'M': arbitrary-address-capable, lost its preferred address 0x90, operational on 0x91
]


class Setup:
    def __init__(self, ri, requester_has_address=True, ncb=2):
        self.w = w = rt.World()
        rt.activate(w)
        self.bus = bus = Bus(w, base_lat=1e-4)
        self.req_st = Stack(bus, 'Q')
        self.rsp_st = Stack(bus, 'R')
        self.other_st = Stack(bus, 'O')            # a second responder stack with one operational CA
        self.calls = []
        nm = j1939.Name(identity_number=0x999)
        self.req_ca = CA(nm, 0x10)
        self.req_st.ecu.add_ca(controller_application=self.req_ca)
        self.cas = []
        for i, (state, addr) in enumerate(RESP[ri]):
            ca = CA(j1939.Name(identity_number=0x100 + i, manufacturer_code=0x111, arbitrary_address_capable=int(state == 'M')), addr)
            self.rsp_st.ecu.add_ca(controller_application=ca)
            for k in range(ncb):
                ca.subscribe_request(lambda sa, da, pgn, i=i, k=k: self.calls.append((('R', i), k, sa, da, pgn)))
            self.cas.append(ca)
        oca = CA(j1939.Name(identity_number=0x300), 0x40)
        self.other_st.ecu.add_ca(controller_application=oca)
        oca.subscribe_request(lambda sa, da, pgn: self.calls.append((('O', 0), 0, sa, da, pgn)))
        self.ocas = [oca]
        w.run_for(0.005)
        if requester_has_address:
            self.req_ca.start(claim_delay=0.0)
        oca.start(claim_delay=0.0)
        for i, (state, addr) in enumerate(RESP[ri]):
            if state in ('N', 'C', 'W', 'M'):
                self.cas[i].start(claim_delay=0.0)
        w.run_for(0.002)
        g = bus.ghost_node()
        for i, (state, addr) in enumerate(RESP[ri]):
            if state == 'C':
                g.send((6 << 26) | (0xEE << 16) | (0xFF << 8) | addr, bytes([1, 0, 0, 0, 0, 0, 0, 0]))
        w.run_for(0.002)
        if requester_has_address == 'lost':
            # the requester held 0x10 and lost it to a lower NAME: it cannot claim (and may still request the address claims,
            # from the null address)
            w.run_for(0.3)
            g.send((6 << 26) | (0xEE << 16) | (0xFF << 8) | 0x10, bytes([1, 0, 0, 0, 0, 0, 0, 0]))
            w.run_for(0.3)
            self.lost_ok = self.req_ca.state == j1939.ControllerApplication.State.CANNOT_CLAIM
        if any(s == 'M' for s, _a in RESP[ri]):
            w.run_for(0.3)                       # operational on the preferred address
            for i, (state, addr) in enumerate(RESP[ri]):
                if state == 'M':
                    g.send((6 << 26) | (0xEE << 16) | (0xFF << 8) | addr, bytes([1, 0, 0, 0, 0, 0, 0, 0]))
            w.run_for(1.0)                       # re-claimed the next address and became operational there
            self.moved_ok = all(ca.state == NORMAL and ca.device_address == a + 1
                                for ca, (s, a) in zip(self.cas, RESP[ri]) if s == 'M')
        self.has_wait = any(s == 'W' for s, _a in RESP[ri])
        self.ri = ri
        self.responders = [(('R', i), ca) for i, ca in enumerate(self.cas)] + [(('O', 0), oca)]
        self.ncb = {('R', i): ncb for i in range(len(self.cas))}
        self.ncb[('O', 0)] = 1
        self.names = {}
        for key, ca in self.responders:
            idn = 0x300 if key[0] == 'O' else 0x100 + key[1]
            f = {'identity_number': idn}
            if key[0] == 'R':
                f['manufacturer_code'] = 0x111
                f['arbitrary_address_capable'] = int(RESP[ri][key[1]][0] == 'M')
            self.names[key] = R.name_bytes(R.name_value(f))

    def close(self):
        self.w.shutdown()


def eval_request(s, pgn, da, acc, sc, dp=0):
    """one request; compare callbacks and claim answers with the statement"""
    w = s.w
    n0 = len(s.calls)
    f0 = len(s.bus.log)
    raised = None
    try:
        s.req_ca.send_request(dp, pgn, da)
    except Exception as e:
        raised = e
    w.run_for(0.0005)
    frames = s.bus.log[f0:]
    calls = s.calls[n0:]
    has_addr = s.req_ca.state == NORMAL
    probs = []
    key = (s.ri, sc.get('requester_has_address', has_addr), pgn, da, dp)
    if not has_addr and pgn != ADDRESSCLAIM:
        if raised is None or frames:
            probs.append("a requester without address sent a request for an ordinary PGN")
        acc.case(key, nontrivial=False)
        if probs:
            acc.violation(probs[0], dict(sc, pgn=pgn, da=da, dp=dp, has_addr=has_addr), None, probs)
        return
    if raised is not None:
        probs.append("send_request raised %r" % type(raised).__name__)
    reqf = [f for f in frames if f.src == 'Q']
    sa = s.req_ca.device_address if has_addr else 254
    want_id = (6 << 26) | (dp << 24) | (0xEA << 16) | ((da & 0xFF) << 8) | sa
    want_data = bytes([pgn & 0xFF, (pgn >> 8) & 0xFF, (pgn >> 16) & 0xFF])
    if dp == 0 and (len(reqf) != 1 or (reqf[0].can_id & 0x3FFFFFF) != (want_id & 0x3FFFFFF) or reqf[0].data != want_data):
        probs.append("request frame on the bus is %s, expected id %08X data %s" % (
            [f.brief() for f in reqf], want_id, want_data.hex()))
    exp_calls = []
    exp_claims = []
    for rkey, ca in s.responders:
        addressed = ca.state == NORMAL and (da == 255 or ca.device_address == da)
        if not addressed or dp != 0:
            continue
        if pgn == ADDRESSCLAIM:
            exp_claims.append((ca.device_address, bytes(s.names[rkey])))
        else:
            for k in range(s.ncb[rkey]):
                exp_calls.append((rkey, k, sa, da, pgn))
    if sorted(calls) != sorted(exp_calls):
        probs.append("request callbacks %s, expected %s" % (sorted(calls)[:4], sorted(exp_calls)[:4]))
    claims = [(f.sa, f.data) for f in frames if f.src != 'Q' and f.pf == 0xEE]
    other = [f for f in frames if f.src != 'Q' and f.pf != 0xEE]
    if sorted(claims) != sorted(exp_claims):
        probs.append("address-claimed answers %s, expected %s" % (
            [(a, d.hex()) for a, d in sorted(claims)], [(a, d.hex()) for a, d in sorted(exp_claims)]))
    if other:
        probs.append("responders emitted %d unexpected frame(s)" % len(other))
    acc.case(key, nontrivial=bool(exp_calls or exp_claims), outcome=(s.ri, len(calls), len(claims), has_addr))
    if probs:
        acc.violation(csig(probs[0]), dict(sc, pgn=pgn, da=da, dp=dp, has_addr=has_addr), None, probs[:3])


def csig(p):
    return p.split(',')[0].split(' [')[0][:90] if p.startswith(('request callbacks', 'address-claimed answers', 'request frame')) else p


def boundary_pgns(seed):
    s = {0, 1, 0xFF, 0x100, 0xEA00, 0xEE00, 0xEEFF, 0xED00, 0xEF00, 0xEE01, 0x1EE00, 0x2EE00, 0x3EE00, 0xF000, 0xFECA,
         0xFEEE, 0xFFFF, 0x10000, 0x1FFFF, 0x20000, 0x3FFFF, 0xEE, 0xEE0000 & 0x3FFFF, 0x00EE, 0xD300, 0xC300}
    x = seed * 7919 + 12345
    for _ in range(8):
        x = (x * 1103515245 + 12345) & 0x7FFFFFFF
        s.add(x & 0x3FFFF)
    return sorted(s)


def dynamic_worker(item):
    """request callbacks that unsubscribe (themselves / a neighbour) from inside the callback: every other callback of the
    addressed CA is still invoked once for that request, and the next request reaches exactly those still registered"""
    from ..net import Bus, Stack
    acc = Acc()
    class App:
        # an application object whose request callback is a bound method: every access to app.on_request makes a new, equal object
        def __init__(self, fn):
            self.fn = fn

        def on_request(self, src, dest, pgn):
            self.fn(src, dest, pgn)

    for k in range(3):
      for style in ('function', 'method'):
        for action in ('unsub_self', 'unsub_next', 'unsub_prev'):
            for da in (0x20, 255):
                sc = {'kind': 'dynamic', 'k': k, 'action': action, 'da': da, 'callbacks': style}
                w = rt.World()
                rt.activate(w)
                try:
                    bus = Bus(w, base_lat=1e-4)
                    R = Stack(bus, 'R')
                    S = Stack(bus, 'S')
                    rca = R.add_ca(0x10, name_value=0x111)
                    sca = S.add_ca(0x20, name_value=0x222)
                    calls = []
                    reg = [True, True, True]
                    cbs = []
                    st = {'armed': True, 'touched': None}

                    def make(j):
                        def cb(src, dest, pgn):
                            calls.append(j)
                            if j == k and st['armed']:
                                st['armed'] = False
                                t = {'unsub_self': k, 'unsub_next': (k + 1) % 3, 'unsub_prev': (k - 1) % 3}[action]
                                st['touched'] = t
                                if reg[t]:
                                    sca.unsubscribe_request(cbs[t]())
                                    reg[t] = False
                        return cb
                    for j in range(3):
                        if style == 'method':
                            app = App(make(j))
                            cbs.append(lambda app=app: app.on_request)
                        else:
                            f = make(j)
                            cbs.append(lambda f=f: f)
                        sca.subscribe_request(cbs[j]())
                    w.run_for(0.005)
                    probs = []
                    for n in range(2):
                        before = list(reg)
                        st['touched'] = None
                        del calls[:]
                        rca.send_request(0, 0xFECA, da)
                        w.run_for(0.003)
                        for j in range(3):
                            got = calls.count(j)
                            if st['touched'] == j and action != 'unsub_self':
                                if got > 1:
                                    probs.append("request %d: callback %d invoked %d times" % (n, j, got))
                                continue
                            if got != (1 if before[j] else 0):
                                probs.append("request %d to %d: request callback %d (registered: %s) was invoked %d time(s)%s"
                                             % (n, da, j, before[j], got, (" while callback %d unsubscribes inside its call" % k) if st['touched'] is not None else ''))
                    acc.case(repr(sc), outcome=len(probs))
                    if probs:
                        acc.violation("a request callback is not invoked exactly once while another one unsubscribes inside its call", sc, None, probs[:3])
                finally:
                    w.shutdown()
    acc.sample({'dynamic': 'request callback k of 3 (plain functions / bound methods of application objects) unsubscribes itself / its neighbour inside the call'})
    return acc


class HoldAndRequest:
    """trace factory: numbers the line events the job thread of the responder executes in controller_application.py; at the
    chosen one two global requests (address claim, DM1) are put on the bus and the thread is held until they have been handled"""

    def __init__(self, point):
        self.point = point
        self.count = 0
        self.where = None
        self.bus = None
        self.seen = 0

    def __call__(self, lt, idx):
        if lt.kind != 'J':
            return None
        k = self.seen
        self.seen += 1
        if k != 0:
            return None
        me = self

        def tracer(frame, event, arg):
            if not frame.f_code.co_filename.endswith('controller_application.py'):
                return tracer if event == 'call' else None
            if event == 'line':
                me.count += 1
                if me.count == me.point:
                    me.where = "%s:%d" % (frame.f_code.co_name, frame.f_lineno)
                    g = me.bus.ghost_node()
                    g.send((6 << 26) | (0xEA << 16) | (0xFF << 8) | 0x10, bytes([0x00, 0xEE, 0x00]))
                    g.send((6 << 26) | (0xEA << 16) | (0xFF << 8) | 0x10, bytes([0xCA, 0xFE, 0x00]))
                    rt.CUR.hold(0.004)
            return tracer
        return tracer


def preempt_one(point, contender, keep=False):
    from ..net import Bus, Stack
    hold = HoldAndRequest(point)
    w = rt.World(trace_factory=hold)
    rt.activate(w)
    try:
        bus = Bus(w, base_lat=1e-3)
        hold.bus = bus
        S = Stack(bus, 'S')                      # first job thread of the world: the one that is held
        nm = j1939.Name(arbitrary_address_capable=1, identity_number=0x77, manufacturer_code=0x123)
        ca = j1939.ControllerApplication(nm, 0x90)
        S.ecu.add_ca(controller_application=ca)
        calls = []
        ca.subscribe_request(lambda src, dest, pgn: calls.append((w.now, ca.state, ca.device_address, src, dest, pgn)))
        w.run_for(0.005)
        ca.start(claim_delay=0.0)
        if contender:
            # a lower NAME claims 0x90 during the veto window: the CA moves on to 0x91
            w.at(w.now + 0.1, lambda: bus.ghost_node().send((6 << 26) | (0xEE << 16) | (0xFF << 8) | 0x90, bytes([1, 0, 0, 0, 0, 0, 0, 0])))
        w.run_for(1.2)
        probs = []
        namev = bytes(nm.bytes)
        for f in bus.log:
            if f.src == 'S' and f.pf == 0xEE and f.sa == 254 and bytes(f.data) == namev:
                probs.append("the CA announced cannot-claim (address-claimed from 254) although it never was in that state: a request handled while its claim state was being changed")
                break
        for (t, st, adr, src, dest, pgn) in calls:
            if st != j1939.ControllerApplication.State.NORMAL or not (isinstance(adr, int) and 0 <= adr <= 253):
                probs.append("a request callback ran for a CA in state %r holding address %r" % (st, adr))
                break
        if ca.state != j1939.ControllerApplication.State.NORMAL or ca.device_address != (0x91 if contender else 0x90):
            probs.append("the CA did not end operational on %d (state %r, address %r)" % (0x91 if contender else 0x90, ca.state, ca.device_address))
        if S.job.exc is not None:
            probs.append("job thread dead: %s" % S.job.exc_type)
        return hold.count, probs, hold.where, [f.brief() for f in bus.log] if keep else None
    finally:
        w.shutdown()


def preempt_worker(item):
    _k, contender, seed = item
    acc = Acc()
    n1, probs, _w, _t = preempt_one(0, contender)
    n2 = preempt_one(0, contender)[0]
    if n1 != n2 or probs:
        acc.violation("HARNESS: pre-emption baseline not clean / not reproducible", {'kind': 'preempt', 'contender': contender}, None, probs[:2] + [repr((n1, n2))])
        return acc
    for pt in range(1, n1 + 1):
        _n, probs, where, _t = preempt_one(pt, contender)
        sc = {'kind': 'preempt', 'contender': contender, 'point': pt}
        acc.case(repr(sc), nontrivial=True, outcome=(bool(probs), where))
        if probs:
            acc.violation(probs[0].split(' in state ')[0], sc, None, probs[:3] + ["job thread held at %s" % where])
    acc.sample({'kind': 'preempt', 'contender': contender, 'line_events': n1})
    return acc


def worker(item):
    if item[0] == 'dynamic':
        return dynamic_worker(item)
    if item[0] == 'preempt':
        return preempt_worker(item)
    kind, ri, has_addr, pgns, das, seed = item
    acc = Acc()
    sc = {'kind': kind, 'responder_config': ri, 'requester_has_address': has_addr}
    s = Setup(ri, has_addr)
    if getattr(s, 'moved_ok', True) is False:
        acc.violation("HARNESS: the arbitrary-address-capable responder did not move to the next address", sc)
        s.close()
        return acc
    if getattr(s, 'lost_ok', True) is False:
        acc.violation("HARNESS: the requester that lost its address is not in the cannot-claim state", sc)
        s.close()
        return acc
    try:
        n = 0
        for pgn in pgns:
            for da in das:
                if s.has_wait and n >= 150:
                    s.close()
                    s = Setup(ri, has_addr)
                    n = 0
                eval_request(s, pgn, da, acc, sc)
                n += 1
            if len(acc.violations) > 10:
                break
    finally:
        s.close()
    acc.sample({'responder_config': RESP[ri], 'requester_has_address': has_addr, 'pgn': '%05X' % pgns[0], 'destination': das[0]})
    return acc


RULE = ("every (responder configuration, requester, PGN, destination) tuple is executed on real stacks: 7 responder stack "
        "configurations (1..3 CAs in the states none / waiting for veto / operational / cannot-claim, 2 request callbacks each) "
        "plus a second responder stack; requester with an address, without one (never started) and in the cannot-claim state after losing it; quick: ~34 boundary PGNs (incl. the data-page "
        "aliases of the address-claim PGN) x all 256 destinations, and all 2^18 PGNs to one owned destination and to the global "
        "address for one configuration; thorough: all 2^18 PGNs x {owned, second owned, unowned, global} for three configurations; "
        "non-trivial if at least one callback or claim answer is expected")
ASSUME = ["request frames are sent with data page 0 (the data_page argument selects another parameter group, not the SAE request)",
          "expected NAME bytes come from the reference NAME codec"]


def run(tier, seed):
    items = []
    bp = boundary_pgns(seed)
    das = list(range(256))
    for ri in range(len(RESP)):
        for has_addr in (True, False, 'lost'):
            pg = bp if has_addr is True else [ADDRESSCLAIM, 0xFECA, 0x1EE00]
            for i in range(0, 256, 64):
                items.append(('boundary', ri, has_addr, pg, das[i:i + 64], seed))
    allp = list(range(1 << 18))
    step = 1 << 12
    for ri in ([1] if tier == 'quick' else list(range(len(RESP)))):
        for i in range(0, 1 << 18, step):
            items.append(('all_pgns', ri, True, allp[i:i + step], [0x20, 255] if tier == 'quick' else [0x20, 0x21, 0x33, 255], seed))
    items.append(('dynamic', seed))
    items.append(('preempt', False, seed))
    items.append(('preempt', True, seed))
    return run_check(PROP, tier, seed, 'exploration', items, worker, RULE, ASSUME,
                     bounds={'pgns': '2^18', 'destinations': 256})


def replay(rec):
    sc = rec['scenario']
    if sc.get('kind') == 'preempt':
        n, probs, where, trace = preempt_one(sc['point'], sc['contender'], keep=True)
        print("\n".join(trace))
        print("job thread held at %s" % where)
        if probs:
            print("REPRODUCED: " + "; ".join(probs[:3]))
            print("VIOLATION property=%s replay=(this file)" % PROP)
            return 1
        print("no violation on this tree")
        return 0
    if sc.get('kind') == 'dynamic':
        a = dynamic_worker(('dynamic', rec.get('seed', 0)))
        mine = [v for v in a.violations if v['scenario'] == sc]
        if mine:
            print("REPRODUCED: " + "; ".join(mine[0]['detail']))
            print("VIOLATION property=%s replay=(this file)" % PROP)
            return 1
        print("no violation on this tree")
        return 0
    acc = Acc()
    s = Setup(sc['responder_config'], sc.get('requester_has_address', sc['has_addr']))
    try:
        eval_request(s, sc['pgn'], sc['da'], acc, sc, sc.get('dp', 0))
        for f in s.bus.log[-6:]:
            print(f.brief())
    finally:
        s.close()
    if acc.violations:
        print("REPRODUCED: " + "; ".join(acc.violations[0]['detail']))
        print("VIOLATION property=%s replay=(this file)" % PROP)
        return 1
    print("no violation on this tree")
    return 0
