"""C11 - FD multi-PG packing preserves every group and honours frame and time limits.
Exhaustive call sequences over small alphabets (lengths around the 64-byte fit boundary, time
limits, destinations, formats, submission offsets, submission from a timer callback) on real
J1939-22 stacks; frames decoded by the reference codec.  DESIGN.md section 4 / C11."""
import itertools

from .. import rt
from ..explore import explore, trim
from ..runner import Acc, run_check
from ..scen import Net
from .. import refcodec as R

PROP = 'C11'
DLL = 'j1939-22'
A_, B_, C_ = 0x10, 0x20, 0x30
LENS = [1, 8, 26, 27, 28, 56, 57, 60]
LIMITS = [0, 0.010, 0.050, 0.200]
TARGETS = ['B', 'C', 'G', 'P2', 'FB', 'FBG']      # PDU1->B, PDU1->C, PDU1->255, PDU2, FBFF PDU2, FBFF PDU1->255
OFFSETS = [0.0, 0.0049, 0.020]
WAKES = [50e-6, 1e-3, 5e-3]


def call_msg(c):
    ln, tl, tg = c['len'], c['tl'], c['tg']
    m = {'src': A_, 'size': ln, 'tl': tl, 'pat': 0, 'prio': c.get('prio', 6), 'dp': c.get('dp', 0)}
    if tg in ('B', 'C'):
        m.update(kind='p2p', dst=B_ if tg == 'B' else C_, pf=0xD0 + (ln & 1))
    elif tg in ('G', 'FBG'):
        m.update(kind='bam1', dst=255, pf=0xD2)
    else:
        m.update(kind='bam2', dst=0x40 + (ln & 3), pf=0xFE)
    if tg in ('FB', 'FBG'):
        m['ff'] = 2
    return m


class HoldInSend:
    """trace factory: numbers the line events application threads execute in j1939_22.py (send_pgn); holds the thread for 1 ms
    at the chosen one"""

    def __init__(self, point):
        self.point = point
        self.count = 0
        self.where = None

    def __call__(self, lt, idx):
        if lt.kind != 'P':
            return None
        me = self

        def tracer(frame, event, arg):
            if not frame.f_code.co_filename.endswith('j1939_22.py'):
                return tracer if event == 'call' else None
            if event == 'line':
                me.count += 1
                if me.count == me.point:
                    me.where = "%s:%d" % (frame.f_code.co_name, frame.f_lineno)
                    rt.CUR.hold(0.001)
            return tracer
        return tracer


def run_one(sc, prefix=(), seed=0, keep=False):
    nsc = {'dll': DLL, 'base_lat': sc.get('base_lat', 1e-3), 'wake_grid': sc.get('wake_grid'), 'send_cost': sc.get('send_cost', 0.0),
           'rx_threads': sc.get('rx_threads'),
           'stacks': [{'name': 'A', 'cas': [A_], 'win': 1}, {'name': 'B', 'cas': [B_], 'win': 1}, {'name': 'C', 'cas': [C_], 'win': 1}]}
    hold = HoldInSend(sc['preempt']) if sc.get('preempt') is not None else None
    net = Net(nsc, prefix, trace_factory=hold)
    app_exc = []
    try:
        w = net.w
        A = net.stacks[0]
        if sc.get('pre') == 'after_pass':
            # the job thread has just finished a pass (woken by an unrelated timer 1 ms ago)
            A.ecu.add_timer(0.0005, lambda c: False)
            w.run_for(0.0015)
        elif sc.get('pre') == 'timer_sooner':
            A.ecu.add_timer(0.004, lambda c: False)
        elif sc.get('pre') == 'timer_later':
            A.ecu.add_timer(0.9, lambda c: False)
        if sc.get('transfer'):
            # a connection-mode transfer of the same stack is in progress (its peer answers slowly: the bus latency of the
            # scenario): its session deadlines (T3 1.25 s, T5 3 s) must not postpone the collection buffers
            net.submit({'src': A_, 'kind': 'p2p', 'dst': B_, 'size': sc['transfer'], 'pat': 1, 'pf': 0xD5}, seed + 50)
        react = sc.get('react')
        if react:
            # B answers A's first group with a group of its own; A's listener reacts to that answer by submitting the next
            # group from inside the receive callback (on whichever thread the bus of the scenario delivers the answer: the
            # scheduler / a receive thread, or - latency 0 - the thread that is inside A's send call)
            done = {}

            def on_b(priority, pgn, sa, timestamp, data):
                if sa == A_ and 'b' not in done:
                    done['b'] = True
                    net.submit({'src': B_, 'kind': 'p2p', 'dst': A_, 'size': 5, 'tl': react['rtl'], 'pat': 2, 'pf': 0xD3}, seed + 70)

            def on_a(priority, pgn, sa, timestamp, data):
                if sa == B_ and 'a' not in done:
                    done['a'] = True
                    net.submit(call_msg({'len': react['len'], 'tl': react['tl'], 'tg': 'B'}), seed + 71)
            net.owner[B_][1].subscribe(on_b)
            net.owner[A_][1].subscribe(on_a)
        t = 0.0
        for i, c in enumerate(sc['calls']):
            t += c.get('off', 0.0)
            m = call_msg(c)
            if c.get('via') == 'timer':
                A.ecu.add_timer(t + 0.001, lambda cookie, m=m, i=i: net.submit(m, seed + i) and False)
            elif c.get('via') == 'thread':
                # submitted by a controlled application thread (which the scenario may pre-empt inside send_pgn)
                def app(m=m, i=i):
                    try:
                        net.submit(m, seed + i)
                    except rt.Killed:
                        raise
                    except BaseException as e:
                        app_exc.append(type(e).__name__)
                w.at(w.now + t, lambda app=app: w.spawn(app, name='app'))
            else:
                w.at(w.now + t, lambda m=m, i=i: net.submit(m, seed + i))
        tmax = max(c['tl'] for c in sc['calls'])
        w.run_for(t + tmax + 0.05 + (3.5 if sc.get('transfer') else 0.0) + ((react['rtl'] + react['tl'] + 0.01) if react else 0.0))
        probs = []
        if react and len(net.sent) != len(sc['calls']) + 2:
            probs.append("the groups submitted from the receive callbacks: %d of 2 calls of send_pgn returned" % (len(net.sent) - len(sc['calls'])))
        for e in app_exc:
            probs.append("send_pgn raised %s in the application thread" % e)
        if hold is not None:
            sc['_line_events'] = hold.count
        # ---- decode every frame A emitted
        groups = []        # (t, format, dest, cpgn, payload)
        for f in net.bus.log:
            if f.src != 'A':
                continue
            if len(f.data) > 64:
                probs.append("frame with %d data bytes" % len(f.data))
                continue
            if not R.fd_legal_len(len(f.data)):
                probs.append("multi-PG frame with illegal CAN FD length %d" % len(f.data))
            if f.ext:
                if f.pf in (0x4D, 0x4E) and sc.get('transfer'):
                    continue                 # frames of the background transfer
                if f.pf != 0x25:
                    probs.append("unexpected frame id %08X" % f.can_id)
                    continue
                fmt, dest = 3, f.ps
                if f.sa != A_:
                    probs.append("multi-PG frame with source address %d" % f.sa)
            else:
                fmt, dest = 2, 255
                if f.can_id != A_:
                    probs.append("FBFF frame id %X is not the source address" % f.can_id)
            try:
                cp = R.multipg_decode(f.data)
            except ValueError as e:
                probs.append("multi-PG frame does not decode: %s" % e)
                continue
            if not cp:
                probs.append("multi-PG frame without any parameter group")
            for (tos, tf, cpgn, pl) in cp:
                if tos != 2 or tf != 0:
                    probs.append("C-PG header with TOS %d / trailer format %d" % (tos, tf))
                groups.append([f.t, fmt, dest, cpgn, pl, False])
        # ---- match submitted groups
        lam = max(sc.get('wake_grid') or [50e-6]) + 2e-4 + 2 * sc.get('send_cost', 0.0) + (1e-3 if hold is not None else 0.0)
        for (m, r, _b0, _b1, data) in net.sent:
            if m['size'] > 60 or m['src'] != A_:
                continue                     # the connection-mode transfer in the background / B's answer (judged by the delivery oracle)
            fb = m.get('ff', 3) == 2
            if fb and m['kind'] == 'p2p':
                continue
            if r is not True:
                probs.append("send_pgn returned %r for a parameter group of %d bytes" % (r, m['size']))
                continue
            pf, ps = net.pfps(m)
            cpgn = (m.get('dp', 0) << 16) | (pf << 8) | (ps if pf >= 240 else 0)
            dest = m['dst'] if m['kind'] == 'p2p' else 255
            hit = None
            for g in groups:
                if not g[5] and g[1] == (2 if fb else 3) and g[2] == dest and g[3] == cpgn and g[4] == bytes(data):
                    hit = g
                    break
            if hit is None:
                probs.append("a submitted parameter group (%d bytes, %s) is not on the bus in a frame of its destination and format"
                             % (m['size'], 'FBFF' if fb else 'FEFF'))
                continue
            hit[5] = True
            late = hit[0] - (m['t_submit'] + m['tl'])
            if late > lam:
                probs.append("a parameter group with time limit %g ms was on the bus %.1f ms after its limit" % (m['tl'] * 1e3, late * 1e3))
        extra = [g for g in groups if not g[5]]
        if extra:
            probs.append("%d parameter group(s) on the bus that were not submitted (or duplicated)" % len(extra))
        probs += net.judge_deliveries(tolerate_ack=bool(sc.get('transfer')))
        probs += net.job_problems()
        probs += net.idle_problems()
        outcome = ([(f.can_id, f.data) for f in net.bus.log], len(net.rec.items))
        return net.chooser.points, probs, outcome, net.trace() if keep else None
    finally:
        net.close()


def csig(probs):
    import re
    p = probs[0]
    if 'missing' in p and 'unexpected' in p:
        return 'delivery differs from the submitted parameter groups'
    return re.sub(r'(?<![A-Za-z])[0-9.]+', 'N', p.split(': containers')[0])


def worker(item):
    if item[0] == 'preempt':
        return preempt_worker(item)
    chunk, bound, seed = item
    acc = Acc()
    for sc in chunk:
        def run(prefix):
            points, probs, outcome, _ = run_one(sc, prefix, seed)
            return points, (probs, outcome)

        for choices, ndev, (probs, outcome) in explore(run, bound, {'wake'}):
            acc.case((repr(sc), trim(choices)), nontrivial=len(sc['calls']) > 1 or sc['calls'][0]['tl'] > 0, outcome=outcome)
            if probs:
                acc.violation(csig(probs), sc, trim(choices), probs[:3])
    acc.sample({'scenario': chunk[0], 'deviation_bound': bound})
    return acc


def preempt_worker(item):
    """an application thread is suspended for 1 ms at every source line of its send_pgn call while the job thread sends the
    collection buffer the call is about to join (the first group's time limit runs out meanwhile)"""
    _k, l2, off, seed = item
    acc = Acc()
    base = {'calls': [{'len': 8, 'tl': 0.010, 'tg': 'B', 'off': 0.0, 'via': 'app'},
                      {'len': l2, 'tl': 0.05, 'tg': 'B', 'off': off, 'via': 'thread'}]}
    sc0 = dict(base, preempt=0)
    run_one(sc0, (), seed)
    n = sc0.get('_line_events', 0)
    sc1 = dict(base, preempt=0)
    run_one(sc1, (), seed)
    if not n or n != sc1.get('_line_events'):
        acc.violation("HARNESS: line-event numbering of the application thread not reproducible", base, None, [repr((n, sc1.get('_line_events')))])
        return acc
    for pt in range(1, n + 1):
        sc = dict(base, preempt=pt)
        points, probs, outcome, _ = run_one(sc, (), seed)
        sc.pop('_line_events', None)
        acc.case(repr(sc), nontrivial=True, outcome=outcome)
        if probs:
            acc.violation(csig(probs), sc, None, probs[:3])
    acc.sample({'scenario': base, 'line_events': n})
    return acc


def scenarios(tier):
    quick = tier == 'quick'
    out = []          # (scenario, bound)
    call = lambda ln, tl, tg, off=0.0, via='app': {'len': ln, 'tl': tl, 'tg': tg, 'off': off, 'via': via}
    # (0) every single call (both data pages)
    for ln in range(1, 61):
        for tl in LIMITS:
            for tg in TARGETS:
                out.append(({'calls': [call(ln, tl, tg)]}, 0))
                if ln in (1, 8, 27, 60) or not quick:
                    out.append(({'calls': [dict(call(ln, tl, tg), dp=1)]}, 0))
    # groups of both data pages for one destination in one sequence
    for tg in ('B', 'G', 'P2', 'FB'):
        for tl in LIMITS[1:3]:
            for dps in ((0, 1), (1, 0), (1, 1), (1, 0, 1)):
                out.append(({'calls': [dict(call(8 + i, tl, tg), dp=d) for i, d in enumerate(dps)]}, 0))
    # (i) same destination: all length tuples x time-limit tuples (the fit test flips at 4+l1+4+l2 = 64)
    for tg in ('B', 'FB') if quick else ('B', 'G', 'P2', 'FB'):
        for k in (2, 3):
            for lens in itertools.product(LENS, repeat=k):
                lims = list(itertools.product(LIMITS[1:], repeat=k)) if k == 2 else \
                    [(0.05, 0.05, 0.05), (0.2, 0.05, 0.01), (0.01, 0.05, 0.2), (0.05, 0.2, 0.05)]
                if not quick and k == 3:
                    lims = list(itertools.product(LIMITS[1:], repeat=3))
                if k == 2:
                    lims += [(0.05, 0), (0, 0.05)]
                for lm in lims:
                    out.append(({'calls': [call(lens[i], lm[i], tg) for i in range(k)]}, 0))
    if not quick:
        # thorough: all 4-call sequences to one destination over the boundary lengths, one time limit / a falling one
        for tg in ('B', 'FB'):
            for lens in itertools.product(LENS, repeat=4):
                for lm in ((0.05, 0.05, 0.05, 0.05), (0.2, 0.05, 0.05, 0.01)):
                    out.append(({'calls': [call(lens[i], lm[i], tg) for i in range(4)]}, 0))
    # (ii) several destinations / formats in one sequence
    for k in (2, 3) if quick else (2, 3, 4):
        for tgs in itertools.product(TARGETS, repeat=k):
            if k == 4 and len(set(tgs)) < 2:
                continue
            for lm in ((0.05,) * k, tuple([0.2, 0.01, 0.05, 0.01][:k])):
                for ln in (8, 28):
                    out.append(({'calls': [call(ln + i, lm[i], tgs[i]) for i in range(k)]}, 0))
    # (iii) homogeneous sequences up to 12 calls: several collection buffers
    for ln in LENS:
        for tl in LIMITS[1:]:
            for n in range(4, 13):
                if quick and n not in (4, 7, 12):
                    continue
                out.append(({'calls': [call(ln, tl, 'B') for _ in range(n)]}, 0))
    # (iv) submission offsets, instants relative to the job thread's sleep, submission from a timer callback;
    #      every single wake-latency deviation
    for (l1, l2) in ((8, 8), (28, 28), (28, 29), (60, 1)):
        for lm in itertools.product(LIMITS[1:], repeat=2):
            for off in OFFSETS:
                for pre in (None, 'after_pass', 'timer_sooner', 'timer_later'):
                    for via in ('app', 'timer'):
                        if quick and (l1, l2) in ((28, 28), (60, 1)) and (pre in ('after_pass',) or via == 'timer'):
                            continue
                        sc = {'calls': [call(l1, lm[0], 'B', 0.0, via), call(l2, lm[1], 'B', off, via)], 'wake_grid': WAKES}
                        if pre:
                            sc['pre'] = pre
                        out.append((sc, 1))
    # (vi) a connection-mode transfer in progress whose peer answers after 2 x 90 ms (within the response time Tr = 200 ms)
    for size in (100, 181):
        for (l1, l2) in ((8, 8), (28, 29)):
            for lm in ((0.05, 0.05), (0.2, 0.2), (0.2, 0.05), (0.01, 0.2)):
                for off in (0.0, 0.02, 0.1):
                    for tg in ('B', 'C'):
                        out.append(({'calls': [call(l1, lm[0], tg), call(l2, lm[1], tg, off)], 'transfer': size, 'base_lat': 0.09}, 0))
    # (v) blocking driver: the second group is submitted while the job thread is inside the send call that puts the
    #     first group's frame on the bus (and just before / after it)
    for cost in (0.3e-3, 2e-3):
        for (l1, l2) in ((8, 8), (28, 28), (28, 29), (60, 1)):
            for tl1 in (0.010, 0.050):
                for tl2 in LIMITS[1:]:
                    for frac in (-0.3, 0.1, 0.5, 0.9, 1.2):
                        for tg in ('B', 'FB'):
                            out.append(({'calls': [call(l1, tl1, tg), call(l2, tl2, tg, tl1 + 50e-6 + frac * cost)], 'send_cost': cost}, 0))
    # (vii) a group submitted from inside a receive callback, in reaction to the peer's answer to the previous group; the
    #       answer is handled by the scheduler, by a receive thread, or (bus latency 0) inside the send call of the job thread
    for (lat, rxt) in ((0.0, False), (1e-3, False), (1e-3, True), (50e-6, True)):
        for tl1 in LIMITS[:3]:
            for rtl in (0, 0.010):
                for tl2 in LIMITS:
                    for ln in (8, 57):
                        sc = {'calls': [call(8, tl1, 'B')], 'react': {'rtl': rtl, 'tl': tl2, 'len': ln}, 'base_lat': lat}
                        if rxt:
                            sc['rx_threads'] = True
                        out.append((sc, 0))
    for tl in LIMITS[1:]:
        for pre in (None, 'after_pass', 'timer_sooner', 'timer_later'):
            for via in ('app', 'timer'):
                for tg in ('B', 'FB'):
                    sc = {'calls': [call(8, tl, tg, 0.0, via)], 'wake_grid': WAKES}
                    if pre:
                        sc['pre'] = pre
                    out.append((sc, 1 if quick else 2))
    return out


RULE = ("call sequences on a real J1939-22 stack with two receiving stacks: every single call (length 1..60 x time limit "
        "{0,10,50,200 ms} x 6 destination/format classes); all 2- and 3-call sequences to one destination over the lengths "
        "{1,8,26,27,28,56,57,60} and time-limit tuples; all 2-/3-call (thorough 4) sequences over the destination/format classes; "
        "homogeneous sequences of 4..12 calls; two-call sequences with submission offsets {0,4.9,20 ms}, four instants relative to the "
        "job thread's sleep, from the application thread and from a timer callback, each with every single wake-latency deviation "
        "{0.05,1,5 ms}; a group submitted from inside a receive callback in reaction to the peer's answer, that answer handled by the "
        "scheduler, a receive thread or (bus latency 0) inside the job thread's own send call; frames decoded by the reference codec; non-trivial if more than one call or a non-zero time limit")
ASSUME = ["multi-PG layout (4-byte C-PG header, TOS 2 / TF 0, padding = TOS-0 header then filler) from the harness author's knowledge of J1939-22",
          "scheduling latency = largest wake latency of the run + 0.2 ms", "base-format (FBFF) frames are judged by the reference decoder only"]


def run(tier, seed):
    sc = scenarios(tier)
    light = [s for (s, b) in sc if b == 0]
    items = [(light[i:i + 150], 0, seed) for i in range(0, len(light), 150)]
    for b in (1, 2):
        heavy = [s for (s, bb) in sc if bb == b]
        items += [(heavy[i:i + 12], b, seed) for i in range(0, len(heavy), 12)]
    for l2 in (8, 57):
        for off in (0.0093, 0.0095, 0.0097, 0.0099, 0.01003, 0.0102):
            items.append(('preempt', l2, off, seed))
    return run_check(PROP, tier, seed, 'exploration', items, worker, RULE, ASSUME,
                     bounds={'sequence_length': '1..3 (12 homogeneous)' if tier == 'quick' else '1..4 (12 homogeneous)',
                             'wake_deviation_bound': 1})


def replay(rec):
    points, probs, outcome, trace = run_one(rec['scenario'], [tuple(c) for c in rec['choices']], rec.get('seed', 0), keep=True)
    print("\n".join(trace))
    if probs:
        print("REPRODUCED: " + "; ".join(probs[:4]))
        print("VIOLATION property=%s replay=(this file)" % PROP)
        return 1
    print("no violation on this tree")
    return 0
