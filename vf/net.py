"""Virtual CAN bus, stacks built from the real library objects, scripted peers, recorders.
DESIGN.md sections 2.3 / 2.4."""
import can

from . import rt
from .loader import load

j1939 = load()
from j1939.electronic_control_unit import MessageListener   # noqa: E402

LAT_DEFAULT = 1e-3


class Frame:
    __slots__ = ('idx', 't', 'src', 'can_id', 'ext', 'data', 'fd', 'lost', 'injected')

    def __init__(self, idx, t, src, can_id, ext, data, fd):
        self.idx = idx
        self.t = t
        self.src = src
        self.can_id = can_id
        self.ext = ext
        self.data = data
        self.fd = fd
        self.lost = False
        self.injected = False

    # decoded identifier fields (harness-side, independent of the library)
    @property
    def prio(self):
        return (self.can_id >> 26) & 7

    @property
    def pf(self):
        return (self.can_id >> 16) & 0xFF

    @property
    def ps(self):
        return (self.can_id >> 8) & 0xFF

    @property
    def dp(self):
        return (self.can_id >> 24) & 1

    @property
    def sa(self):
        return self.can_id & 0xFF

    def brief(self):
        return "#%d t=%.6f %s id=%08X%s [%s]%s" % (
            self.idx, self.t - rt.T0, self.src, self.can_id, '' if self.ext else '(std)',
            self.data.hex(), ' LOST' if self.lost else '')

    def tojson(self):
        return {'idx': self.idx, 't': round(self.t - rt.T0, 6), 'src': self.src,
                'id': '%08X' % self.can_id, 'ext': self.ext, 'data': self.data.hex(),
                'fd': self.fd, 'lost': self.lost}


class Node:
    def __init__(self, bus, name):
        self.bus = bus
        self.name = name
        self.rx_active = False
        self.rx_pending = []
        self.inflight = 0
        self.last_t = 0.0
        self.silent_from = None      # vanishes once that many frames are on the bus
        self.deaf = False            # receives nothing (but may send)
        self.suppressed = []
        self.blocking_send = False   # Stack: True (subject to Bus.send_cost); scripted peers send instantly
        self.busy_until = 0.0
        self.nested_rx = 0           # must stay 0: a receive thread never re-enters itself
        self.last_rx_t = None
        self.last_tx_t = None
        self.rx_log = []             # (t, frame idx) of every frame handled by this node
        self.rx_done = set()         # frame idx of every frame whose handler has returned (it may wait for a lock meanwhile)
        self.rxq = None              # set by start_rx_thread(): frames are handled by a controlled receive thread
        self.rx_lt = None
        self.rx_raised = []          # exceptions that escaped the handler on the receive thread (type names)
        bus.nodes.append(self)

    def start_rx_thread(self):
        """handle delivered frames on a controlled thread of their own (python-can's Notifier thread) instead of on the
        scheduler: a send call made by the handler can then block (Bus.send_cost) while everything else goes on"""
        self.rxq = rt.VQueue()
        self.rx_lt = self.bus.w.spawn(self._rx_loop, name='R:' + self.name, kind='R')

    def _rx_loop(self):
        while True:
            fr = self.rxq.get()
            try:
                self.receive(fr)
            except (rt.Killed, rt.BusySpin):
                raise
            except Exception as e:                      # noqa: contained, as a Notifier's on_error would; reported by the checks
                self.rx_raised.append(type(e).__name__)

    def receive(self, fr):
        if self.rx_active:
            self.rx_pending.append(fr)
            return
        self.rx_active = True
        try:
            self._handle(fr)
            while self.rx_pending:
                self._handle(self.rx_pending.pop(0))
        finally:
            self.rx_active = False

    def _handle(self, fr):
        self.last_rx_t = self.bus.w.now
        self.rx_log.append((self.last_rx_t, fr.idx))
        self.handle(fr)
        self.rx_done.add(fr.idx)

    def handle(self, fr):
        raise NotImplementedError


class Bus:
    """single global order = order of send calls; per receiver FIFO with a latency per
    (frame, receiver); latency 0 = handled inside the sender's send call."""

    def __init__(self, w, base_lat=LAT_DEFAULT, lat_grid=None):
        self.w = w
        self.base_lat = base_lat
        self.lat_grid = lat_grid         # None = no choice point; else list whose [0] is the default
        self.nodes = []
        self.log = []
        self.drop = set()                # frame indices lost on the bus
        self.drop_fn = None              # optional predicate fn(frame) -> lost
        self.inject = {}                 # idx -> list of (can_id, data, fd) sent by a ghost node right after frame idx
        self.taps = []                   # fn(frame) at send time
        self.rx_exc = []                 # exceptions escaping a node's handler (harness nodes only)
        self.ghost = None
        self.capture = None              # list: frames sent while probing are captured, not transmitted
        self.send_cost = 0.0             # a blocking driver: the sending thread is held this long inside send_message
        self.send_visible = 1.0          # where in a blocking send call the frame appears on the bus: 1 = when the call returns
                                         # (driver queues, then transmits), 0 = at once (the call waits for the transmit confirmation)
        self.cap = 20000                 # frame storm guard: beyond this the bus goes dead and the run is flagged
        self.storm = False

    def send(self, node, can_id, ext, data, fd=False, injected=False):
        w = self.w
        if self.capture is not None:
            self.capture.append(Frame(-1, w.now, node.name, can_id, ext, data, fd))
            return
        n = len(self.log)
        node.last_tx_t = w.now           # (moved on to the time the call returns further down, if the driver blocks)
        if len(self.log) >= self.cap:
            self.storm = True
            return
        if node.silent_from is not None and n >= node.silent_from:
            node.suppressed.append((w.now, can_id, data))
            return
        cost = self.send_cost if (self.send_cost and not injected and node.blocking_send) else 0.0
        # a blocking driver serialises the send calls of one node (python-can's default backend holds a lock): a call made
        # while another one is in progress waits for it; the frame is on the bus when its own call completes
        t_ret = (max(w.now, node.busy_until) + cost) if cost else w.now      # when the send call returns
        t_bus = t_ret - (1.0 - self.send_visible) * cost                      # when the frame is on the bus
        if cost:
            node.busy_until = t_ret
            node.last_tx_t = t_ret
        fr = Frame(n, t_bus, node.name, can_id, ext, data, fd)
        fr.injected = injected
        self.log.append(fr)
        if n in self.drop or (self.drop_fn is not None and self.drop_fn(fr)):
            fr.lost = True
        for tap in self.taps:
            tap(fr)
        if not fr.lost:
            for rcv in self.nodes:
                if rcv is node or rcv.deaf:
                    continue
                if rcv.silent_from is not None and n >= rcv.silent_from:
                    continue
                if self.lat_grid is not None and rcv.wants_latency_choice:
                    lat = w.choose('lat', self.lat_grid, (n, rcv.name))
                else:
                    lat = self.base_lat
                t = t_bus + lat
                if t < rcv.last_t:
                    t = rcv.last_t
                if lat == 0 and cost == 0 and rcv.inflight == 0 and t <= w.now:
                    rcv.receive(fr)
                else:
                    rcv.inflight += 1
                    rcv.last_t = t
                    w.at(t, lambda rcv=rcv, fr=fr: self._deliver(rcv, fr))
        inj = self.inject.get(n)
        if inj:
            # frames a ghost node sends right after this one is on the bus
            def do_inj(inj=inj):
                for (can_id2, data2, fd2) in inj:
                    self.send(self.ghost_node(), can_id2, True, data2, fd2, injected=True)
            if t_bus > w.now:
                w.at(t_bus, do_inj)
            else:
                do_inj()
        if cost:
            # hold the sender (a controlled thread yields; everything else - receive threads, other stacks, the
            # application - goes on meanwhile); a send made by the scheduler thread itself just takes that long
            if w.cur is not None:
                w.hold(t_ret - w.now)
            elif w.now < t_ret:
                w.now = t_ret

    def _deliver(self, rcv, fr):
        rcv.inflight -= 1
        if rcv.rxq is not None:
            rcv.rxq.put(fr)
        else:
            rcv.receive(fr)

    def ghost_node(self):
        if self.ghost is None:
            self.ghost = Peer(self, 'ghost')
        return self.ghost

    def frames(self, src=None):
        return [f for f in self.log if src is None or f.src == src]


class Peer(Node):
    """scripted node: on_frame(frame) is called for every frame it receives"""
    wants_latency_choice = False

    def __init__(self, bus, name, on_frame=None):
        super().__init__(bus, name)
        self.on_frame = on_frame
        self.seen = []

    def handle(self, fr):
        self.seen.append(fr)
        if self.on_frame is not None:
            self.on_frame(fr)

    def send(self, can_id, data, fd=False, ext=True):
        self.bus.send(self, can_id, ext, bytes(data), fd)


class Stack(Node):
    """a real ElectronicControlUnit attached to the virtual bus through its documented
    custom-backend seam (send_message= in, MessageListener.on_message_received out)"""
    wants_latency_choice = True

    def __init__(self, bus, name, dll='j1939-21', **kw):
        super().__init__(bus, name)
        rt.activate(bus.w)
        self.dll = dll
        nthreads = len(bus.w.threads)
        self.ecu = j1939.ElectronicControlUnit(data_link_layer=dll, send_message=self._send, **kw)
        self.job = bus.w.threads[nthreads]
        self.job.name = 'J:' + name
        self.listener = MessageListener(self.ecu)
        self.cas = []
        self.flags = None            # override (ext, remote, error) of delivered frames (C05)
        self.blocking_send = True
        self.zero_ts = False         # deliver frames with timestamp 0.0 (a backend without time stamping)
        self.ts_offset = 0.0         # receive time stamps of a clock that is ahead of / behind time.time() (hardware time stamping)
        self.rx_errors = 0

    def _send(self, can_id, extended_id, data, fd_format=False):
        self.bus.send(self, can_id, bool(extended_id), bytes(data), bool(fd_format))

    def handle(self, fr):
        msg = can.Message(timestamp=0.0 if self.zero_ts else self.bus.w.now + self.ts_offset, arbitration_id=fr.can_id,
                          is_extended_id=fr.ext, data=fr.data, is_fd=fr.fd, check=False)
        self.listener.on_message_received(msg)

    def add_ca(self, address, name_value=None, bypass=True, **name_kw):
        if name_value is None and not name_kw:
            name_kw = {'identity_number': 1 + len(self.cas) + 16 * len(self.bus.nodes)}
        nm = j1939.Name(value=name_value) if name_value is not None else j1939.Name(**name_kw)
        ca = j1939.ControllerApplication(nm, address, bypass_address_claim=bypass)
        self.ecu.add_ca(controller_application=ca)
        self.cas.append(ca)
        return ca

    def alive(self):
        return not self.job.done


class Rec:
    """records subscriber callbacks: (tag, t, priority, pgn, sa, payload bytes)"""

    def __init__(self, w):
        self.w = w
        self.items = []
        self.hooks = []              # fn(tag, priority, pgn, sa, data) run inside the callback (application reacting at once)

    def cb(self, tag):
        def f(priority, pgn, sa, timestamp, data):
            self.items.append((tag, self.w.now, priority, pgn, sa, bytes(data)))
            for h in list(self.hooks):
                h(tag, priority, pgn, sa, bytes(data))
        return f

    def by_tag(self, tag):
        return [x for x in self.items if x[0] == tag]


def payload(n, pattern=0, seed=0):
    """payload patterns: 0 = position coded without 0xFF, 1 = all 0xFF, 2 = all 0x00"""
    if pattern == 1:
        return [0xFF] * n
    if pattern == 2:
        return [0x00] * n
    return [((i * 7 + 1 + seed) % 251) for i in range(n)]
