#!/venv/bin/python
"""regenerates the 'fixed' part of known_findings.json from the fix: commits in /repo (the 'known' part is kept)"""
import json, subprocess
PROPS = {   # subject prefix -> (property, what failed)
 "fix: J1939-22 responder paths": ("C02", "J1939-22: a finished/failed inbound session returned its number to the stack's own originator pool: 9th send_pgn accepted with 8 sessions in flight; a received session number >= 8 (RTS) / >= 4 (BAM) followed by silence raised IndexError in the job thread (also C07, C10)"),
 "fix: J1939-22 return the RTS/CTS session number": ("C06", "J1939-22: a connection abort from the peer while waiting for CTS leaked the RTS/CTS session number (also C10)"),
 "fix: J1939-22 deliver a message at EOM status": ("C06", "J1939-22: with one data segment lost the EOM status was still accepted and a truncated payload delivered and acknowledged"),
 "fix: a CTS that clears nothing sendable": ("C07", "J1939-21/-22: CTS when nothing is left to send / next packet beyond the end / over-grant from the originator's position left the session in the sending state with a past deadline: job thread busy-spins for ever, session never released"),
 "fix: J1939-22 wake the job thread when a multi-PG": ("C11", "J1939-22: send_pgn with time_limit did not wake the job thread; on an idle ECU the group was sent up to 5 s late (also seen by C07's idle oracle)"),
 "fix: enter the claim state before": ("C04", "a contending claim processed before the claim's send call returned (zero latency) met the old state and was ignored: two CAs operational on one address"),
 "fix: a broadcast (BAM) of a PDU1 parameter group": ("C03", "a PDU1 parameter group sent to the global address by BAM (both layers) announced its PGN with PS = 0xFF (0xEFFF instead of 0xEF00): an independent decoder, and the library's own receiver, identify the message under another PGN than the same group sent as a single frame, by RTS/CTS or multi-PG (until then tolerated by the oracles as 'PDU1 PGNs are compared modulo the PS byte')"),
 "fix: after a hold CTS the originator waits T4": ("C03", "both layers: after a hold (zero-packet) CTS the originator armed Th = 0.5 s instead of T4 = 1.05 s: a conforming responder repeating its hold CTS every 0.5 s, one of them delayed 5 ms on the bus, had the connection aborted (reason 3) - the reference peer had spaced its hold frames 0.4 s until then"),
 "fix: a listener that unsubscribes inside its callback": ("C05", "a message listener that unsubscribes itself (or an earlier entry) from inside its callback made the next registered listener miss the frame being delivered (live list iterated); the DM14 facade depended on that skip for the closing DM14 and now ignores that message explicitly"),
 "fix: a request callback that unsubscribes inside": ("C14", "a request callback that unsubscribes itself (or an earlier one) inside its call made the next request callback of that CA miss the request"),
 "fix: a DM1 subscriber that unsubscribes inside": ("C16", "a DM1 subscriber that unsubscribes itself (or an earlier one) inside its callback made the next subscriber miss the DM1 being delivered"),
 "fix: an arbitrary-address-capable CA that loses address 253": ("C04", "an arbitrary-address-capable CA that lost address 253 announced and held the null address 254 as operational (255 after a further loss) and sent application frames from it; found after a sub-agent's remark about the unmodified library, preferred addresses 252/253 were not in the families before"),
 "fix: the CAs of one ECU take part in each other": ("C04", "two CAs on one ECU never saw each other's address claims (no self-reception): with the same preferred address, or with an arbitrary-address-capable CA moving onto its sibling's address, both ended operational on one address; CAs had only been placed on separate ECUs before a sub-agent's remark about the unmodified library"),
 "fix: J1939-22 a segment that is sent a second time": ("C03", "J1939-22 originator: a data segment the responder asks for again (lost frame, CTS naming an earlier segment) went out with the 4-byte header twice and a shifted payload - the header was inserted into the stored segment; the frames decode to a corrupt message (the reference peer never re-requested a segment before sub-agents pointed at the in-place insert)"),
 "fix: Dm1 builds the message it sends in local": ("C16", "one Dm1 object that sends and receives: a DM1 of another node handled by the receive thread while the job thread was inside Dm1._send (pre-empted at any of its source lines) made the node broadcast the other node's lamp states / trouble codes or a mixture under its own address"),
 "fix: DM1 subscribers are handed what was parsed": ("C16", "one Dm1 object that sends and receives: the node's own cyclic DM1 built (job thread) while the receive thread was between parsing a received DM1 and notifying the subscribers made them receive the node's own lamp states / trouble codes under the other node's address"),
 "fix: the address claim state machine is serialised": ("C04", "the job thread suspended inside the claim timer callback (between reading WAIT_VETO and entering NORMAL, or around the first claim) while the receive thread handles a contending claim with a lower NAME: the CA ends operational on the address it has just lost, or on the null address 254"),
 "fix: the reserved bit of a NAME reads as 0 also": ("C15", "a NAME built by assigning value or bytes to an existing Name object kept the reserved bit (bit 48): other value, bytes and reserved_bit than Name(value=) / Name(bytes=) for the same input"),
 "fix: remove_timer is synchronised with the job thread": ("C12", "remove_timer called from another thread while the job thread is suspended between its registration check and the call of the callback (or inside the one-shot removal): the callback is called after remove_timer has returned; ValueError ends the job thread"),
 "fix: unsubscribe is synchronised with the delivery": ("C12", "unsubscribe called from another thread while the receive thread is suspended between its registration check and the call of the subscriber: the callback is called after unsubscribe has returned"),
 "fix: J1939-22 collection buffers are handled under a lock": ("C11", "J1939-22 send_pgn(time_limit=): the application thread suspended between the existence test of a collection buffer and a later lookup while the job thread takes the due buffer out: KeyError out of send_pgn, the group is lost"),
 "fix: J1939-22 session numbers are taken from the pools": ("C02", "J1939-22: two application threads calling send_pgn at the same time, the first suspended inside __get_bam_session between testing and taking a pool entry: both broadcasts get the same session number and both messages are lost"),
 "fix: J1939-22 a new broadcast announcement replaces": ("C06", "J1939-22 BAM: after a lost end-of-message status the next broadcast of the same originator (same session number) started before the receiver's T1 time-out was dropped together with the stale session: the new transfer is not delivered"),
 "fix: an address-claimed frame that does not carry 8 bytes": ("C07", "a truncated address-claimed frame (0..7 bytes, zeros) for the address of an operational CA reads as a low NAME: the CA gives its address up (cannot-claim for a single-address CA) - a malformed frame leaves the stack unusable"),
 "fix: a DM14 frame that does not carry 8 bytes": ("C07", "a truncated DM14 (0..7 bytes) whose refusal path raises IndexError leaves the memory-access server without listener and busy: no later well-formed request is answered"),
 "fix: the cyclic DM1 skips a cycle while its CA holds no address": ("C16", "Dm1.start_send while the CA is still claiming (veto window) or before it is started, cycle shorter than the time to the address: the first tick raises in the job thread and ends it; no DM1 is ever sent"),
 "fix: J1939-22 do not apply the destination filter to PDU2": ("C05", "J1939-22: PDU2 (broadcast) single frames were dropped unless the group extension equalled a local address"),
 "fix: timer and subscriber lists": ("C12", "remove_timer/unsubscribe removed while iterating (one of two adjacent registrations survived); an expired one-shot made the job thread skip the next timer (served up to 5 s late); a callback that removed itself and returned False killed the job thread with ValueError"),
 "fix: a periodic timer whose deadline equals": ("C12", "a periodic timer whose deadline is exactly equal to the time stamp of the job thread's pass (a faster timer keeps the thread passing) was served, not advanced, and called a second time in the next pass: two calls in one period"),
 "fix: Dm1.stop_send": ("C16", "Dm1.stop_send removed a timer that does not exist: DM1 kept being sent after stop_send"),
 "fix: DM22 request carries SPN bits": ("C16", "DM22 request encoded SPN bits 16..18 from spn >> 22: every SPN above 65535 was requested as SPN & 0xFFFF"),
 "fix: the job thread tolerates receive sessions": ("C08", "job thread held between the key snapshot and the table lookup while the receive thread completes the message: KeyError, job thread dead (both layers)"),
 "fix: J1939-22 advance the send session before": ("C08", "J1939-22 originator pre-empted after a segment was on the bus but before the session state was advanced: the CTS / EOM acknowledge handled in between was overwritten, message lost or job thread spinning"),
 "fix: ignore transport connection-management frames sent from the global": ("C07", "a CTS / end-of-message acknowledge from source address 255 matches the key of the stack's own broadcast session: J1939-22 leaks the BAM session number for good, J1939-21 cuts the broadcast short (found after adding frames from 255 to the C07 alphabet)"),
 "fix: DM1 receive parser no longer writes": ("C16", "one Dm1 object used for sending and receiving, send callback handing out a persistent lamp dict: a DM1 received from another node overwrote it and the node then broadcast foreign lamp states as its own (found by the one-object exchange scenarios added to C16)"),
 "fix: J1939-22 multi-PG buffer is taken out": ("C11", "J1939-22: a parameter group submitted with a time limit while the job thread was inside the (blocking) send call of the collection buffer for the same destination was appended to that buffer and deleted with it: send_pgn returned True, the group never reached the bus"),
 "fix: DM14 server treats a read of exactly 8": ("C17", "a DM14 read of exactly 8 data bytes: the server sent 'operation complete' before its multi-packet DM16, the client returned [] and both sides stayed non-idle"),
 "fix: DM14 read converts every object": ("C17", "DM14 read with value conversion: every object after the first was converted from a wrong byte slice"),
 "fix: DM14 server does not queue the end-of-message": ("C17", "after a multi-packet DM14 read the 7 bytes of the end-of-message acknowledge stayed in the server's write queue: the next write handed them to the application instead of the written data"),
 "fix: DM14 server forgets the pointer": ("C17", "after one successful DM14 access every request for a different memory address was refused as busy"),
 "fix: Dm14Query enters WAIT_FOR_SEED before": ("C17", "DM14 client: the server's first answer handled by the receive thread before the client's send call had returned (a driver whose send returns after the frame was on the bus) met state IDLE: AssertionError on the receive thread, read/write raised 'No response from server'"),
 "fix: DM14 server expects the write data before": ("C17", "DM14 server: the client's DM16 handled by the receive thread before the send call of the server's 'proceed' had returned was not queued: respond() returned None instead of the written bytes, the closing DM14 was taken for a new request"),
 "fix: MemoryAccess.read/write return to IDLE": ("C18", "after any failed DM14 query the client facade stayed in WAIT_QUERY: the next read raised 'Process already Running', the next write silently did nothing"),
 "fix: DM14 server side is usable again": ("C18", "after a refusal at the proceed callback (no seed/key) the server facade was deaf; after a wrong key the server object kept the rejected request's state; after respond(False) a request for another address was refused as busy"),
 "fix: Dm14Query leaves no listener": ("C18", "Dm14Query kept its DM15 listener, state and queued exceptions after a failed query: the next query raised the previous query's error"),
}
log = subprocess.check_output(['git', '-C', '/repo', 'log', '--reverse', '--format=%h|%s']).decode().strip().split('\n')
cur = json.load(open('/verif/known_findings.json'))
fixed = []
for l in log:
    h, s = l.split('|', 1)
    if not s.startswith('fix:'):
        continue
    for pre, (p, w) in PROPS.items():
        if s.startswith(pre):
            extra = EXTRA.get(h) if 'EXTRA' in globals() else None
            fixed.append({'property': p, 'commit': h, 'subject': s, 'what': w or s, 'line': 'fixed: property=%s %s %s' % (p, h, w or s)})
            break
    else:
        fixed.append({'property': '?', 'commit': h, 'subject': s, 'what': s, 'line': 'fixed: property=? %s %s' % (h, s)})
cur['fixed'] = fixed
json.dump(cur, open('/verif/known_findings.json', 'w'), indent=1)
print(len(fixed), 'fixed entries')
