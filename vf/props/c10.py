"""C10 - transport capacity is conserved over any history of good and failed transfers.
Explicit-state BFS over episode sequences (one transfer run to quiescence under one outcome),
de-duplicated on the canonical quiescent state; in every reachable state the full advertised
concurrency must start and complete.  DESIGN.md section 4 / C10."""
import time

from .. import rt
from ..runner import Acc, report
from ..scen import Net
from ..canon import canon, digest
from ..refpeer import RefPeer
from .. import refcodec as R
from .. import mc
from .c01 import msg

PROP = 'C10'
XA, XB, YA, YB, PP = 0x80, 0x81, 0x90, 0x91, 0xA0


def sizes(dll, exact=False):
    if exact:                      # exact multiples of the packet size
        return (21, 14) if dll == 'j1939-21' else (180, 120)
    return (20, 16) if dll == 'j1939-21' else (150, 130)


def nframes(dll, kind, win=2):
    """bus frames of a fault-free 3-packet (BAM: 3 / 2-packet) transfer"""
    cts = {1: 3, 2: 2}.get(win, 1)
    if dll == 'j1939-21':
        return 1 + cts + 3 + 1 if kind == 'p2p' else 4
    return 1 + cts + 3 + 2 if kind == 'p2p' else 5


def alphabet(hist):
    dll = hist[0][1]
    win = min(hist[0][2], hist[0][3]) if len(hist[0]) > 3 else 2
    A = []
    for d in ('out', 'in'):
        n = nframes(dll, 'p2p', win)
        A.append((d, 'p2p', ('clean',)))
        for k in range(n):
            A.append((d, 'p2p', ('lost', k)))
        for k in range(n + 1):
            A.append((d, 'p2p', ('silent', k)))
        for k in range(n):
            A.append((d, 'p2p', ('abort', k)))
        nb = nframes(dll, 'bam')
        A.append((d, 'bam', ('clean',)))
        for k in range(nb):
            A.append((d, 'bam', ('lost', k)))
        A.append((d, 'bam', ('silent', 1)))
        A.append((d, 'bam', ('silent', nb - 1)))
    A.append(('full', 'p2p'))
    A.append(('full', 'bam'))
    A.append(('mixed',))
    if dll == 'j1939-22':
        for sess in (1, 5, 7):
            A.append(('peer', sess, 'clean'))
        for sess in (2, 7):
            A.append(('peer', sess, 'rts_only'))
            A.append(('peer', sess, 'no_eoms'))
        A.append(('peer', 3, 'bam_clean'))
        A.append(('peer', 2, 'bam_no_eoms'))
        # an inbound session ends (in each possible way) while all own sessions are in flight
        for v in ('p2p_clean', 'bam_clean', 'rts_timeout', 'dup_rts', 'cts_unknown', 'eoms_unknown', 'eoma_unknown', 'bam_twice'):
            A.append(('busy_in', v))
    return A


def cfg_of(hist):
    return list(hist[0])


class Built:
    def __init__(self, hist):
        dll = hist[0][1]
        wx, wy, self.exact = (hist[0][2], hist[0][3], hist[0][4]) if len(hist[0]) > 3 else (2, 2, False)
        self.wy = min(wx, wy)          # packets per CTS on X's own outbound sessions
        self.dll = dll
        sc = {'dll': dll, 'base_lat': 1e-3, 'zero_ts': len(hist[0]) > 5 and bool(hist[0][5]),
              'stacks': [{'name': 'X', 'cas': [XA, XB], 'win': wx}, {'name': 'Y', 'cas': [YA, YB], 'win': wy}]}
        self.net = net = Net(sc)
        self.x, self.y = net.stacks
        self.peer = RefPeer(net.bus, 'P', PP, dll, rlat=(1e-3,), holds=(0,), dt_gap=(0.0,), bam_gap=(0.012,))
        self.probs = []
        self.ref_out = 0
        for ep in hist[1:]:
            self.episode(ep)
            if self.probs or self.x.job.done:
                break

    # ------------------------------------------------------------------
    def episode(self, ep):
        net = self.net
        w = net.w
        dll = self.dll
        big, bsz = sizes(dll, self.exact)
        base = len(net.bus.log)
        sent0 = len(net.sent)
        if ep[0] in ('out', 'in'):
            d, kind, fault = ep
            src, dst = (XA, YA) if d == 'out' else (YA, XA)
            m = msg(src, 'p2p', dst, big) if kind == 'p2p' else msg(src, 'bam2', 0x31, bsz)
            peer_stack = self.y
            if fault[0] == 'lost':
                net.bus.drop = {base + fault[1]}
            elif fault[0] == 'silent':
                peer_stack.silent_from = base + fault[1]
            elif fault[0] == 'abort':
                k = base + fault[1]

                def tap(fr, k=k):
                    if fr.idx == k:
                        def fire():
                            peer_stack.silent_from = len(net.bus.log)
                            pgn = 0xD000
                            if dll == 'j1939-21':
                                data = R.tp21_abort(1, pgn)
                                pf = 0xEC
                            else:
                                data = R.tp22_cm(15, 0, 0xFFFFFF, 0xFFFFFF, 0xFF, 1, pgn)
                                pf = 0x4D
                            net.bus.ghost_node().send((7 << 26) | (pf << 16) | (XA << 8) | YA, bytes(data), fd=(dll == 'j1939-22'))
                        w.at(w.now + 2e-4, fire)
                net.bus.taps.append(tap)
            r = net.submit(m, len(net.sent))
            if d == 'out' and r is not True:
                self.probs.append("send_pgn returned %r on an idle stack (history position %d)" % (r, len(net.sent)))
            w.run_for(3.7 + (0.3 if kind == 'bam' else 0))
            if fault[0] == 'abort':
                net.bus.taps.pop()
        elif ep[0] == 'full':
            if ep[1] == 'p2p':
                n = 9 if dll == 'j1939-22' else 2
                res = []
                for i in range(n):
                    b0 = len(net.bus.log)
                    if dll == 'j1939-22':
                        r = net.submit(msg(XA, 'p2p', [YA, YB][i % 2], big + i), i)
                    else:
                        r = net.submit(msg(XA, 'p2p', YA, big + i), i)
                    res.append(r)
                    if r is False and len(net.bus.log) != b0:
                        self.probs.append("refused send_pgn emitted frames")
                want = [True] * (n - 1) + [False]
                if res != want:
                    self.probs.append("send_pgn results %r for %d calls at once on an idle stack, expected %r" % (res, n, want))
            else:
                n = 5 if dll == 'j1939-22' else 2
                res = []
                for i in range(n):
                    b0 = len(net.bus.log)
                    r = net.submit(msg(XA, 'bam2', 0x40 + i, bsz + i), i)
                    res.append(r)
                    if r is False and len(net.bus.log) != b0:
                        self.probs.append("refused send_pgn emitted frames")
                want = [True] * (n - 1) + [False]
                if res != want:
                    self.probs.append("send_pgn results %r for %d broadcast calls at once on an idle stack, expected %r" % (res, n, want))
            w.run_for(3.9)
        elif ep[0] == 'mixed':
            for i, m in enumerate((msg(XA, 'p2p', YA, big), msg(XB, 'p2p', YB, big + 5), msg(YA, 'p2p', XA, big + 2),
                                   msg(YB, 'bam2', 0x32, bsz), msg(XA, 'bam2', 0x33, bsz + 1))):
                r = net.submit(m, i)
                if r is not True:
                    self.probs.append("send_pgn returned %r on a free pair / with free sessions" % (r,))
            w.run_for(3.9)
        elif ep[0] == 'peer':
            _p, sess, variant = ep
            data = [(i * 3 + sess) & 0xFF for i in range(big)]
            p = self.peer
            if variant == 'clean':
                p.originate(XA, 0xD000, data, limit=255, sess=sess)
            elif variant == 'bam_clean':
                p.originate(255, 0xFE44, data, sess=sess)
            else:
                # a peer that stops: after the RTS, or after the last segment (no end-of-message status)
                if variant == 'rts_only':
                    p.cm(XA, R.tp22_cm(0, sess, len(data), 3, 3, 0, 0xD000), 6)
                elif variant == 'no_eoms':
                    p.cm(XA, R.tp22_cm(0, sess, len(data), 3, 3, 0, 0xD000), 6)
                    for i, fr in enumerate(R.tp22_segments(data, sess)):
                        w.at(w.now + 0.004 + 0.001 * i, lambda fr=fr: p.dt(XA, fr))
                else:
                    p.cm(255, R.tp22_cm(4, sess, len(data), 3, 0xFF, 0, 0xFE44), 6)
                    for i, fr in enumerate(R.tp22_segments(data, sess)):
                        w.at(w.now + 0.012 * (i + 1), lambda fr=fr: p.dt(255, fr))
            w.run_for(3.9)
            p.tx = None
            p.rx.clear()
        elif ep[0] == 'busy_in':
            v = ep[1]
            p = self.peer
            own_bam = v in ('bam_clean', 'bam_twice')
            long_size = 24000 if v == 'rts_timeout' else 6000
            if v == 'rts_timeout':
                net.bus.base_lat = 5e-3          # slow bus: the own sessions outlast the receive timeout
            if self.wy > 8:
                # large windows: without a round trip per few packets the own sessions would be over before the probe;
                # a blocking driver (1 ms per frame) keeps them in flight
                net.bus.send_cost = 1e-3
                if v == 'rts_timeout':
                    # the own sessions must outlast 1.32 s without any of them waiting longer than T2 for its turn:
                    # three windows of 255 segments each, 0.4 ms per frame (0.8 s per round over the 8 sessions)
                    net.bus.send_cost = 0.4e-3
                    long_size = 45000
            if own_bam:
                own = [msg(XA, 'bam2', 0x50 + i, 900) for i in range(4)]
            else:
                own = [msg(XA if i % 2 else XB, 'p2p', [YA, YB][i % 2], long_size + 60 * i) for i in range(8)]
            for i, m in enumerate(own):
                if net.submit(m, i) is not True:
                    self.probs.append("send_pgn refused although sessions are free")
            data = [(i * 5 + 1) & 0xFF for i in range(100)]
            wait = 0.05
            if v == 'p2p_clean':
                p.originate(XB, 0xD100, data, limit=255, sess=0)
            elif v == 'bam_clean':
                p.originate(255, 0xFE45, data[:70], sess=0)
            elif v == 'rts_timeout':
                p.cm(XB, R.tp22_cm(0, 0, 100, 2, 2, 0, 0xD100), 6)
                wait = 1.32
            elif v == 'dup_rts':
                p.cm(XB, R.tp22_cm(0, 0, 100, 2, 2, 0, 0xD100), 6)
                w.at(w.now + 0.005, lambda: p.cm(XB, R.tp22_cm(0, 0, 100, 2, 2, 0, 0xD100), 6))
            elif v == 'cts_unknown':
                p.cm(XB, R.tp22_cm(1, 3, 0xFFFFFF, 1, 1, 0, 0xD100))
            elif v == 'eoms_unknown':
                p.cm(XB, R.tp22_cm(2, 1, 100, 2, 0, 0, 0xD100))
            elif v == 'eoma_unknown':
                p.cm(XB, R.tp22_cm(3, 2, 100, 2, 0xFF, 0xFF, 0xD100))
            elif v == 'bam_twice':
                p.cm(255, R.tp22_cm(4, 0, 100, 2, 0xFF, 0, 0xFE45), 6)
                w.at(w.now + 0.005, lambda: p.cm(255, R.tp22_cm(4, 0, 100, 2, 0xFF, 0, 0xFE45), 6))
            w.run_for(wait)
            f0 = len(net.bus.log)
            probe_m = msg(XB, 'bam2', 0x66, 200) if own_bam else msg(XA, 'p2p', YA, 300)
            # reference from the bus: have any of the own sessions ended yet?
            ended = 0
            for fr in net.bus.log[base:]:
                if fr.pf == 0x4D and len(fr.data) >= 12:
                    c = fr.data[0] & 0xF
                    if (not own_bam and c in (3, 15) and fr.ps in (XA, XB) and fr.src == 'Y') or \
                            (own_bam and c == 2 and fr.ps == 255 and fr.src == 'X'):
                        ended += 1
            r = net.submit(probe_m, 9)
            if ended:
                self.probs.append("HARNESS: own sessions ended before the capacity probe of episode %r" % (ep,))
            elif r is not False:
                self.probs.append("an inbound session ending (%s) made send_pgn accept a call beyond the own capacity" % v)
            w.run_for(5.5)
            p.tx = None
            p.rx.clear()
        # back to a fault-free network
        net.bus.base_lat = 1e-3
        net.bus.send_cost = 0.0
        net.bus.drop = set()
        self.y.silent_from = None
        if not net.is_idle(self.x):
            # session tables must be empty at quiescence; pools may differ (that is what the search tracks)
            sizes_now = {k: v for k, v in vars(self.x.ecu.j1939_dll).items() if isinstance(v, dict) and v}
            if sizes_now:
                self.probs.append("session tables not empty at quiescence after episode %r" % (ep,))
        if not net.is_idle(self.y):
            self.y_dirty = True

    def problems(self):
        p = list(self.probs)
        p += [x for x in self.net.job_problems() if 'of X' in x or 'storm' in x]
        return p

    def digest(self):
        return digest(canon(self.x.ecu.j1939_dll, self.net.w.now, depth=3))

    def close(self):
        self.net.close()


def step(hist):
    b = Built(hist)
    try:
        probs = b.problems()
        return (b.digest() if not probs else None), probs, None
    finally:
        b.close()


def probe(hist):
    """from the quiescent state: start the full advertised concurrency; all accepted, one more refused without
    frames, everything delivered intact"""
    b = Built(hist)
    try:
        probs = b.problems()
        if probs:
            return probs
        net = b.net
        dll = b.dll
        big, bsz = sizes(dll, b.exact)
        n0 = len(net.rec.items)
        net.sent = []
        res = []
        if dll == 'j1939-22':
            batch = [msg(XA if i % 2 == 0 else XB, 'p2p', [YA, YB][(i // 2) % 2], big + 7 * i) for i in range(8)]
            batch += [msg(XA, 'bam2', 0x50 + i, bsz + 3 * i) for i in range(4)]
            extra = [msg(XB, 'p2p', YA, big + 99), msg(XB, 'bam2', 0x60, bsz + 9)]
        else:
            batch = [msg(XA, 'p2p', YA, big), msg(XA, 'p2p', YB, big + 1), msg(XB, 'p2p', YA, big + 2), msg(XB, 'p2p', YB, big + 3),
                     msg(XA, 'bam2', 0x50, bsz), msg(XB, 'bam2', 0x51, bsz + 1)]
            extra = [msg(XA, 'p2p', YA, big + 9), msg(XB, 'bam2', 0x52, bsz + 2)]
        # the other stack starts transfers of its own towards X first: inbound sessions for X, which must not cost X any
        # of its own outbound capacity (nor, the other stack being a second instance in this process, share anything with it)
        inbound = [msg(YA, 'p2p', XA, big + 5), msg(YB, 'p2p', XB, big + 6), msg(YA, 'bam2', 0x70, bsz + 5)]
        if dll == 'j1939-22':
            inbound += [msg(YB, 'p2p', XA, big + 8), msg(YB, 'bam2', 0x71, bsz + 6)]
        rin = [net.submit(m, 60 + i) for i, m in enumerate(inbound)]
        if rin != [True] * len(inbound):
            probs.append("the peer stack's own transfers refused on an idle network: send_pgn results %r" % (rin,))
        for i, m in enumerate(batch):
            res.append(net.submit(m, 40 + i))
        if res != [True] * len(batch):
            probs.append("full advertised concurrency refused: send_pgn results %r" % (res,))
        for m in extra:
            f0 = len(net.bus.log)
            r = net.submit(m, 77)
            if r is not False:
                probs.append("a call beyond the advertised capacity returned %r" % (r,))
            elif len(net.bus.log) != f0:
                probs.append("a refused call emitted frames")
        net.w.run_for(4.2)
        net.rec.items = net.rec.items[n0:]
        jd = net.judge_deliveries()
        if jd:
            probs.append("full-concurrency batch not delivered intact: " + jd[0])
        probs += [x for x in net.job_problems()]
        if not net.is_idle(b.x) and not probs:
            # compare with the state before the batch instead of the fresh stack: pools may legitimately... no: must be equal
            pass
        return probs
    finally:
        b.close()


ZA, ZB = 0xB0, 0xB1


def burst_worker(item):
    """non-quiescent histories: a faulty outbound transfer X->Y is started and, tau after it, while its tail may still be
    in flight, a burst of transfers to ANOTHER stack Z (the first one ahead of the rest): every call must be accepted
    (sessions / pairs are free), every accepted message delivered intact, everything idle at the end"""
    cfg, fault, tau, seed = item
    acc = Acc()
    dll = cfg[1]
    wx, wy, exact = cfg[2], cfg[3], cfg[4]
    sc = {'dll': dll, 'base_lat': 1e-3, 'zero_ts': len(cfg) > 5 and bool(cfg[5]),
          'stacks': [{'name': 'X', 'cas': [XA, XB], 'win': wx}, {'name': 'Y', 'cas': [YA, YB], 'win': wy},
                     {'name': 'Z', 'cas': [ZA, ZB], 'win': wy}]}
    net = Net(sc)
    try:
        w = net.w
        y = net.stacks[1]
        big, bsz = sizes(dll, exact)
        count = [0]

        def on_pair(fr):
            # frames of the first transfer's address pair, numbered from 0
            if {fr.sa, fr.ps} == {XA, YA}:
                count[0] += 1
                return count[0] - 1
            return None
        if fault[0] == 'lost':
            net.bus.drop_fn = lambda fr: on_pair(fr) == fault[1]
        elif fault[0] == 'silent':
            def tap(fr):
                k = on_pair(fr)
                if k is not None and k + 1 == fault[1]:
                    y.silent_from = len(net.bus.log)
            if fault[1] == 0:
                y.silent_from = 0
            net.bus.taps.append(tap)
        elif fault[0] == 'abort':
            def tap(fr):
                if on_pair(fr) == fault[1]:
                    def fire():
                        y.silent_from = len(net.bus.log)
                        data = R.tp21_abort(1, 0xD000) if dll == 'j1939-21' else R.tp22_cm(15, 0, 0xFFFFFF, 0xFFFFFF, 0xFF, 1, 0xD000)
                        pf = 0xEC if dll == 'j1939-21' else 0x4D
                        net.bus.ghost_node().send((7 << 26) | (pf << 16) | (XA << 8) | YA, bytes(data), fd=(dll == 'j1939-22'))
                    w.at(w.now + 2e-4, fire)
            net.bus.taps.append(tap)
        probs = []
        first = msg(XA, 'p2p', YA, big)
        r = net.submit(first, 1)
        if r is not True:
            probs.append("send_pgn returned %r on an idle stack" % (r,))
        w.run_for(tau)
        if dll == 'j1939-22':
            # the first one is long enough to be still running when the others start
            burst = [msg(XA, 'p2p', ZB, 2400 + big)] + [msg(XA, 'p2p', ZB, big * 4 + 60 * i) for i in range(1, 7)]
        else:
            burst = [msg(XA, 'p2p', ZB, big), msg(XB, 'p2p', ZB, big + 1), msg(XB, 'p2p', ZA, big + 2)]
        res = [net.submit(burst[0], 2)]
        w.run_for(0.03)
        for i, m in enumerate(burst[1:]):
            res.append(net.submit(m, 3 + i))
        w.run_for(5.0)
        # the first transfer may legitimately fail: judge the burst only
        from ..net import payload
        first_pl = bytes(payload(first['size'], 0, 1 + first['src']))
        net.sent = net.sent[1:]
        net.rec.items = [x for x in net.rec.items if x[5] != first_pl and not net._is_ack(x[5])]
        if any(x is not True for x in res):
            probs.append("burst after a transfer with %s: send_pgn results %r with free sessions / pairs" % (fault[0], res))
        jd = net.judge_deliveries(tolerate_ack=False)
        if jd:
            probs.append("burst after a transfer with %s: accepted message(s) not delivered intact" % fault[0])
        probs += [x for x in net.job_problems()]
        y.silent_from = None
        probs += [p for p in net.idle_problems() if p.startswith('X ') or p.startswith('Z ')]
        acc.case((cfg, fault, tau), outcome=net.outcome())
        if probs:
            acc.violation(csig(probs), {'burst': {'cfg': list(cfg), 'fault': list(fault), 'tau': tau}}, None, probs[:3])
    finally:
        net.close()
    acc.sample({'burst_after': list(fault), 'tau_s': tau, 'cfg': list(cfg)})
    return acc


def csig(probs):
    import re
    p = probs[0]
    if p.startswith('full-concurrency batch not delivered'):
        return 'full-concurrency batch not delivered intact'
    return re.sub(r'\[[^\]]*\]', '[..]', re.sub(r'\(history position \d+\)', '', p)).strip()


RULE = ("state = canonical quiescent data-link layer of the real stack (tables empty, i.e. essentially the session-number pools); "
        "transition = one episode run to quiescence: {outbound, inbound} x {RTS/CTS, BAM} x {clean, every single frame lost, peer "
        "silent from every frame on, peer abort after every frame} + over-subscription (9 / 5 calls at once) + mixed both-direction "
        "traffic + (FD) a reference peer choosing session numbers 1..7 that completes, stops after the RTS, or omits the end-of-message "
        "status; BFS until the frontier is empty; every distinct state is probed with the full advertised concurrency")
ASSUME = ["a quiescent state is reached 3.7..4.2 s after an episode starts", "the peer is a second real stack (bus faults) or the "
          "reference peer (chosen session numbers)", "histories of any length are covered when the frontier empties (reported)"]


def run(tier, seed):
    t0 = time.time()
    acc = Acc()
    nontrivial, outcomes = set(), set()
    info = {}
    try:
        cfgs = []
        for dll in ('j1939-21', 'j1939-22'):
            wins = [(2, 2, False), (1, 255, True)] if tier == 'quick' else \
                [(2, 2, False), (1, 1, True), (255, 255, False), (1, 255, True), (255, 2, False), (2, 1, True)]
            for (wx, wy, exact) in wins:
                cfgs.append(('cfg', dll, wx, wy, exact))
            cfgs.append(('cfg', dll, 2, 2, False, True))      # a backend that delivers every frame with time stamp 0.0
        for cfg in cfgs:
            dll = cfg[1]
            depth = 3 if tier == 'quick' else 6
            r = mc.bfs('vf.props.c10', [[cfg]], lambda i, d=depth: d, acc, probe=True, sig=csig)
            info['%s windows %d/%d%s%s' % (dll, cfg[2], cfg[3], ' exact-multiple sizes' if cfg[4] else '', ' zero time stamps' if len(cfg) > 5 else '')] = {'states_per_level': r['levels'], 'depth_completed': r['depth_completed'],
                         'frontier_emptied': r['frontier_emptied'], 'episode_alphabet': len(alphabet([cfg]))}
            for dig, h in list(r['seen'].items())[:1]:
                acc.sample({'history': h})
            acc.sample({'episode_examples': [list(map(str, alphabet([cfg])[i])) for i in (1, 12, 30)]})
            for dig in r['seen']:
                nontrivial.add(hash((cfg, dig)))
            for e in alphabet([cfg]):
                nontrivial.add(hash((cfg, e)))
    except RuntimeError as e:
        print("HARNESS-ERROR property=%s\n%s" % (PROP, e))
        return 2
    # non-quiescent histories (bursts while the tail of a faulty transfer is still in flight)
    from ..runner import make_pool, pmap, merge
    items = []
    for cfg in cfgs:
        nfr = nframes(cfg[1], 'p2p', min(cfg[2], cfg[3]))
        faults = [('abort', k) for k in range(0, 3)] + [('lost', k) for k in range(nfr)] + [('silent', k) for k in (1, 2, nfr - 1)]
        for f in faults:
            for tau in (0.002, 0.02, 0.3, 1.27, 1.4):
                items.append((cfg, f, tau, seed))
    pool = make_pool()
    try:
        for r in pmap(pool, burst_worker, items, chunksize=2):
            merge(acc, r, nontrivial, outcomes)
            acc.transitions += r.evals
    except RuntimeError as e:
        print("HARNESS-ERROR property=%s\n%s" % (PROP, e))
        return 2
    finally:
        pool.close()
        pool.join()
    acc.extra['non_quiescent_bursts'] = len(items)
    acc.extra['per_layer'] = info
    fix = all(v['frontier_emptied'] for v in info.values())
    return report(PROP, tier, seed, 'model_checking', acc, nontrivial, outcomes, RULE, ASSUME, t0,
                  exhaustive=fix, mc=True, nitems=len(cfgs), bounds={'max_depth': 3 if tier == 'quick' else 6, 'fixpoint_reached': fix})


def replay(rec):
    if 'burst' in rec['scenario']:
        bu = rec['scenario']['burst']
        a = burst_worker((_tup(bu['cfg']), _tup(bu['fault']), bu['tau'], rec.get('seed', 0)))
        if a.violations:
            print("REPRODUCED: " + "; ".join(a.violations[0]['detail']))
            print("VIOLATION property=%s replay=(this file)" % PROP)
            return 1
        print("no violation on this tree")
        return 0
    hist = [_tup(x) for x in rec['scenario']['history']]
    b = Built(hist)
    try:
        print("\n".join(b.net.trace()[-40:]))
        probs = b.problems()
    finally:
        b.close()
    if not probs and rec['scenario'].get('probe'):
        probs = probe(hist)
    if probs:
        print("REPRODUCED: " + "; ".join(probs[:3]))
        print("VIOLATION property=%s replay=(this file)" % PROP)
        return 1
    print("no violation on this tree")
    return 0


def _tup(x):
    return tuple(_tup(y) for y in x) if isinstance(x, list) else x
