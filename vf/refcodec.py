"""Independent reference codecs written from the SAE layouts (J1939-21 identifier / TP frames,
J1939-81 NAME, J1939-73 DTC / DM1 lamps / DM22, DM14/15/16 of J1939-73 Appendix, and the harness
author's reading of J1939-22 FD.TP / multi-PG).  Nothing here imports the library."""

# ------------------------------------------------------------------ identifier
def id_compose(prio, pgn18, sa):
    return ((prio & 7) << 26) | ((pgn18 & 0x3FFFF) << 8) | (sa & 0xFF)


def id_parse(can_id):
    """(priority, edp, dp, pf, ps, sa)"""
    return ((can_id >> 26) & 7, (can_id >> 25) & 1, (can_id >> 24) & 1, (can_id >> 16) & 0xFF,
            (can_id >> 8) & 0xFF, can_id & 0xFF)


# ------------------------------------------------------------------ NAME (J1939-81)
NAME_FIELDS = [   # (attribute, lowest bit, width)
    ('identity_number', 0, 21), ('manufacturer_code', 21, 11), ('ecu_instance', 32, 3),
    ('function_instance', 35, 5), ('function', 40, 8), ('reserved_bit', 48, 1),
    ('vehicle_system', 49, 7), ('vehicle_system_instance', 56, 4), ('industry_group', 60, 3),
    ('arbitrary_address_capable', 63, 1)]


def name_fields(v):
    return {n: (v >> lo) & ((1 << w) - 1) for (n, lo, w) in NAME_FIELDS}


def name_value(fields):
    v = 0
    for (n, lo, w) in NAME_FIELDS:
        v |= (fields.get(n, 0) & ((1 << w) - 1)) << lo
    return v


def name_bytes(v):
    return [(v >> (8 * i)) & 0xFF for i in range(8)]


# ------------------------------------------------------------------ J1939-21 transport
def tp21_decode_cm(data):
    """dict for a TP.CM frame (8 bytes)"""
    if len(data) != 8:
        return {'bad': 'TP.CM must be 8 bytes, got %d' % len(data)}
    c = data[0]
    pgn = data[5] | (data[6] << 8) | (data[7] << 16)
    if c == 16:
        return {'t': 'RTS', 'size': data[1] | (data[2] << 8), 'npk': data[3], 'limit': data[4], 'pgn': pgn}
    if c == 17:
        return {'t': 'CTS', 'n': data[1], 'next': data[2], 'pgn': pgn, 'resv': bytes(data[3:5])}
    if c == 19:
        return {'t': 'EOMA', 'size': data[1] | (data[2] << 8), 'npk': data[3], 'pgn': pgn, 'resv': data[4]}
    if c == 32:
        return {'t': 'BAM', 'size': data[1] | (data[2] << 8), 'npk': data[3], 'pgn': pgn, 'resv': data[4]}
    if c == 255:
        return {'t': 'ABORT', 'reason': data[1], 'pgn': pgn, 'resv': bytes(data[2:5])}
    return {'bad': 'unknown TP.CM control byte %d' % c}


def tp21_rts(size, npk, limit, pgn):
    return [16, size & 0xFF, size >> 8, npk, limit, pgn & 0xFF, (pgn >> 8) & 0xFF, (pgn >> 16) & 0xFF]


def tp21_cts(n, nxt, pgn):
    return [17, n, nxt, 0xFF, 0xFF, pgn & 0xFF, (pgn >> 8) & 0xFF, (pgn >> 16) & 0xFF]


def tp21_eoma(size, npk, pgn):
    return [19, size & 0xFF, size >> 8, npk, 0xFF, pgn & 0xFF, (pgn >> 8) & 0xFF, (pgn >> 16) & 0xFF]


def tp21_bam(size, npk, pgn):
    return [32, size & 0xFF, size >> 8, npk, 0xFF, pgn & 0xFF, (pgn >> 8) & 0xFF, (pgn >> 16) & 0xFF]


def tp21_abort(reason, pgn):
    return [255, reason, 0xFF, 0xFF, 0xFF, pgn & 0xFF, (pgn >> 8) & 0xFF, (pgn >> 16) & 0xFF]


def tp21_segments(payload):
    """list of 8-byte TP.DT frames for a payload"""
    out = []
    for i in range(0, len(payload), 7):
        chunk = list(payload[i:i + 7])
        chunk += [0xFF] * (7 - len(chunk))
        out.append([i // 7 + 1] + chunk)
    return out


# ------------------------------------------------------------------ J1939-22 transport (author's reading)
FD_LEN = [0, 1, 2, 3, 4, 5, 6, 7, 8, 12, 16, 20, 24, 32, 48, 64]


def fd_legal_len(n):
    return n in FD_LEN


def fd_next_len(n):
    for x in FD_LEN:
        if x >= n:
            return x
    raise ValueError(n)


def tp22_decode_cm(data):
    if len(data) < 12:
        return {'bad': 'FD.TP.CM shorter than 12 bytes'}
    c = data[0] & 0xF
    sess = data[0] >> 4
    size = data[1] | (data[2] << 8) | (data[3] << 16)
    seg = data[4] | (data[5] << 8) | (data[6] << 16)
    pgn = data[9] | (data[10] << 8) | (data[11] << 16)
    names = {0: 'RTS', 1: 'CTS', 2: 'EOMS', 3: 'EOMA', 4: 'BAM', 15: 'ABORT'}
    if c not in names:
        return {'bad': 'unknown FD.TP.CM control %d' % c}
    d = {'t': names[c], 'sess': sess, 'pgn': pgn, 'b7': data[7], 'b8': data[8]}
    if c in (0, 2, 3, 4):
        d['size'] = size
        d['nseg'] = seg
    if c == 0:
        d['limit'] = data[7]
    if c == 1:
        d['next'] = seg
        d['n'] = data[7]
    if c == 15:
        d['reason'] = data[8]
    return d


def tp22_cm(ctrl, sess, size, seg, b7, b8, pgn):
    return [ctrl | (sess << 4), size & 0xFF, (size >> 8) & 0xFF, (size >> 16) & 0xFF,
            seg & 0xFF, (seg >> 8) & 0xFF, (seg >> 16) & 0xFF, b7 & 0xFF, b8 & 0xFF,
            pgn & 0xFF, (pgn >> 8) & 0xFF, (pgn >> 16) & 0xFF]


def tp22_segments(payload, sess):
    out = []
    for i in range(0, len(payload), 60):
        chunk = list(payload[i:i + 60])
        seg = i // 60 + 1
        fr = [sess << 4, seg & 0xFF, (seg >> 8) & 0xFF, (seg >> 16) & 0xFF] + chunk
        fr += [0xFF] * (fd_next_len(len(fr)) - len(fr))
        out.append(fr)
    return out


def multipg_decode(data):
    """list of (tos, tf, cpgn, payload) ; raises ValueError on a malformed frame.
    Padding: a C-PG header with TOS 0 ends the frame."""
    out = []
    i = 0
    n = len(data)
    while i < n:
        if n - i < 4:
            # fewer than 4 bytes cannot hold a header: must be padding
            if any(b not in (0, 0xAA) for b in data[i:]):
                raise ValueError("trailing bytes that are neither a C-PG nor padding")
            break
        tos = (data[i] >> 5) & 7
        if tos == 0:
            break
        tf = (data[i] >> 2) & 7
        cpgn = ((data[i] & 3) << 16) | (data[i + 1] << 8) | data[i + 2]
        ln = data[i + 3]
        if i + 4 + ln > n:
            raise ValueError("C-PG payload length %d exceeds the frame" % ln)
        out.append((tos, tf, cpgn, bytes(data[i + 4:i + 4 + ln])))
        i += 4 + ln
    return out


# ------------------------------------------------------------------ J1939-73
def dtc_encode(spn, fmi, oc, cm=0):
    """4 bytes: SPN low 8, SPN mid 8, SPN high 3 (bits 7..5) + FMI (bits 4..0), CM (bit 7) + OC"""
    return [spn & 0xFF, (spn >> 8) & 0xFF, (((spn >> 16) & 7) << 5) | (fmi & 0x1F), ((cm & 1) << 7) | (oc & 0x7F)]


def dtc_decode(b):
    spn = b[0] | (b[1] << 8) | ((b[2] >> 5) << 16)
    return {'spn': spn, 'fmi': b[2] & 0x1F, 'oc': b[3] & 0x7F, 'cm': b[3] >> 7}


LAMPS = ['pl', 'awl', 'rsl', 'mil']           # byte 1 bits 1-2, 3-4, 5-6, 7-8
# status -> (lamp 2 bits, flash 2 bits):  off, on (steady), slow flash, fast flash, not available
LAMP_BITS = {0: (0, 3), 1: (1, 3), 2: (1, 0), 3: (1, 1), 4: (3, 3)}


def dm1_encode(lamps, dtcs):
    b0 = b1 = 0
    for i, k in enumerate(LAMPS):
        lamp, flash = LAMP_BITS[lamps.get(k, 0)]
        b0 |= lamp << (2 * i)
        b1 |= flash << (2 * i)
    out = [b0, b1]
    for d in dtcs:
        out += dtc_encode(d['spn'], d['fmi'], d.get('oc', 0))
    return out


def dm22_request(ctrl, spn, fmi):
    return [ctrl, 0xFF, 0xFF, 0xFF, 0xFF, spn & 0xFF, (spn >> 8) & 0xFF, (((spn >> 16) & 7) << 5) | (fmi & 0x1F)]
