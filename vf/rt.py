"""Virtual run time: proxy modules for time / queue / threading, the deterministic
World (virtual clock, baton threads, event heap, choice points).

DESIGN.md section 2.  The library under test is imported by vf.loader with these proxy
modules in sys.modules, so every `time.time()`, `queue.Queue()` and `threading.Thread()`
of the library binds here.  Exactly one logical thread runs at any instant.
"""
import sys
import types
import signal
import ctypes
import heapq
import itertools
import traceback
import threading as _th
import queue as _q
import time as _t

T0 = 1.7e9            # virtual epoch
TICK = 1e-6           # virtual cost of one clock read
SPIN_LIMIT = 50000    # clock reads of one thread between two blocking waits

CUR = None            # the World of the execution in progress (one per process at a time)


_FREE = object()          # lock owner value for 'not held' (None is the scheduler thread)


class BusySpin(BaseException):
    """raised inside a controlled thread that keeps reading the clock without ever blocking"""


class Deadlock(BaseException):
    """raised inside a controlled thread that acquires a non-reentrant lock it already holds: with a real lock the thread would
    never go on; recorded like an escaped exception (the thread is dead for the rest of the execution)"""


class Killed(BaseException):
    """raised inside a parked controlled thread when its world is shut down"""


class HarnessError(Exception):
    """the controlled world was left (un-virtualised blocking call, divergence, ...)"""


class Runaway(BaseException):
    """raised on the scheduler thread when a single call into the library (a frame handler, a public call made by the
    scenario) has used WATCHDOG_CPU seconds of processor time without returning and without reading the virtual clock"""


WATCHDOG_CPU = 4.0    # processor seconds; the longest legitimate single step (one handler call / one thread slice) takes milliseconds


def _on_vtalrm(signum, frame):
    w = CUR
    if w is not None and w.cur is not None and getattr(w.cur, 'os', None) is not None and not w.cur.done:
        # a controlled thread loops without ever reading the clock: end it the way the clock-read guard would
        w.cur.spun = True
        ctypes.pythonapi.PyThreadState_SetAsyncExc(ctypes.c_ulong(w.cur.os.ident), ctypes.py_object(BusySpin))
        signal.setitimer(signal.ITIMER_VIRTUAL, WATCHDOG_CPU)
        return
    raise Runaway("a call into the library does not return (%g s of processor time in one step)" % WATCHDOG_CPU)


def _arm():
    signal.setitimer(signal.ITIMER_VIRTUAL, WATCHDOG_CPU)


def _disarm():
    signal.setitimer(signal.ITIMER_VIRTUAL, 0)


if _th.current_thread() is _th.main_thread():
    signal.signal(signal.SIGVTALRM, _on_vtalrm)


# --------------------------------------------------------------------------- proxies
vtime = types.ModuleType('time')
for _k in dir(_t):
    if not _k.startswith('__'):
        setattr(vtime, _k, getattr(_t, _k))


def _time():
    w = CUR
    if w is None:
        return _t.time()
    return w.clock_read()


def _sleep(x):
    w = CUR
    if w is None or w.cur is None:
        raise HarnessError("time.sleep outside a controlled thread")
    w.sleep(x)


vtime.time = _time
vtime.sleep = _sleep
vtime.monotonic = _time
vtime.perf_counter = _time

vqueue = types.ModuleType('queue')
vqueue.Empty = _q.Empty
vqueue.Full = _q.Full


class VQueue:
    """queue.Queue whose blocking get blocks in virtual time"""

    def __init__(self, maxsize=0):
        self.items = []
        self.waiter = None

    def put(self, x, block=True, timeout=None):
        self.items.append(x)
        w = CUR
        if w is not None and self.waiter is not None:
            w.notify_put(self)

    def put_nowait(self, x):
        self.put(x)

    def qsize(self):
        return len(self.items)

    def empty(self):
        return not self.items

    def get(self, block=True, timeout=None):
        if self.items:
            return self.items.pop(0)
        if not block:
            raise _q.Empty
        w = CUR
        if w is None:
            raise HarnessError("blocking Queue.get outside a world")
        w.block_on_queue(self, timeout)
        if self.items:
            return self.items.pop(0)
        raise _q.Empty

    def get_nowait(self):
        return self.get(False)


vqueue.Queue = VQueue
vqueue.SimpleQueue = VQueue

vthreading = types.ModuleType('threading')
for _k in dir(_th):
    if not _k.startswith('__'):
        setattr(vthreading, _k, getattr(_th, _k))


class VThread:
    def __init__(self, group=None, target=None, name=None, args=(), kwargs=None, daemon=None):
        self.target = target
        self.name = name
        self.args = args
        self.kwargs = kwargs or {}
        self.daemon = daemon
        self.lt = None

    def start(self):
        if CUR is None:
            raise HarnessError("Thread.start outside a world")
        self.lt = CUR.spawn(self.target, self.args, self.kwargs, self.name or 'thr', kind='J')
        self.lt.vthread = self

    def join(self, timeout=None):
        CUR.join(self.lt)

    def is_alive(self):
        return self.lt is not None and not self.lt.done


class VLock:
    """lock in virtual time, owned by a logical thread (None = the scheduler thread, which runs the receive handlers and the
    scripted main line).  A controlled thread that finds it taken waits; the scheduler thread lets the world go on until the
    holder releases it (the holder is a controlled thread that is held or blocked inside the critical section)."""
    reentrant = False

    def __init__(self):
        self.owner = _FREE
        self.count = 0

    def _me(self):
        w = CUR
        return None if w is None else w.cur

    def locked(self):
        return self.owner is not _FREE

    def acquire(self, blocking=True, timeout=-1):
        me = self._me()
        if self.owner is not _FREE and self.owner is me:
            if self.reentrant:
                self.count += 1
                return True
            if me is not None:
                raise Deadlock()
            raise Runaway("the call acquires a non-reentrant lock it already holds (deadlock)")
        if self.owner is not _FREE:
            if not blocking:
                return False
            w = CUR
            if w is None:
                raise HarnessError("contended lock outside a world")
            if w.cur is not None:
                while self.owner is not _FREE:
                    w.wait_until(lambda: self.owner is _FREE, 1e9)
            else:
                n = 0
                while self.owner is not _FREE:
                    n += 1
                    if n > 100000 or not w.step(w.now + 30.0):
                        raise HarnessError("lock never released (deadlock)")
        self.owner = me
        self.count = 1
        return True

    def release(self):
        self.count -= 1
        if self.count <= 0:
            self.owner = _FREE
            self.count = 0

    __enter__ = acquire

    def __exit__(self, *a):
        self.release()


class VRLock(VLock):
    reentrant = True


class VEvent:
    def __init__(self):
        self.flag = False

    def is_set(self):
        return self.flag

    def set(self):
        self.flag = True

    def clear(self):
        self.flag = False

    def wait(self, timeout=None):
        if self.flag:
            return True
        w = CUR
        if w is None or w.cur is None:
            raise HarnessError("Event.wait outside a controlled thread")
        return w.wait_until(lambda: self.flag, timeout if timeout is not None else 1e9)


def _current_thread():
    """threading.current_thread() of the library: the Thread object the current logical thread was started through (the job
    thread), a stand-in per harness-spawned thread, the real object on the scheduler thread"""
    w = CUR
    lt = None if w is None else w.cur
    if lt is None:
        return _th.current_thread()
    vt = getattr(lt, 'vthread', None)
    if vt is None:
        vt = lt.vthread = VThread(name=lt.name)
        vt.lt = lt
    return vt


vthreading.current_thread = _current_thread
vthreading.currentThread = _current_thread
vthreading.Thread = VThread
vthreading.Lock = VLock
vthreading.RLock = VRLock
vthreading.Event = VEvent


def _no_condition(*a, **k):
    raise HarnessError("threading.Condition used by the library: not virtualised")


vthreading.Condition = _no_condition
vthreading.Semaphore = _no_condition


# --------------------------------------------------------------------------- choices
class Chooser:
    """Replays a prefix of choices, then takes option 0 (the default) and records every
    choice point met: (kind, number of options, index taken, info)."""

    def __init__(self, prefix=()):
        self.prefix = list(prefix)
        self.points = []

    def choose(self, kind, n, info=None):
        i = len(self.points)
        if i < len(self.prefix):
            want_kind, c = self.prefix[i]
            if want_kind != kind or c >= n:
                raise HarnessError("divergence while replaying prefix at %d: want %r/%r got %r/%d"
                                   % (i, want_kind, c, kind, n))
        else:
            c = 0
        self.points.append((kind, n, c, info))
        return c

    def choices(self):
        return [(k, c) for (k, n, c, info) in self.points]


# --------------------------------------------------------------------------- world
class LT:
    __slots__ = ('name', 'kind', 'sem', 'done', 'exc', 'exc_type', 'os', 'wake_at', 'wait_q',
                 'pred', 'reads', 'spun', 'blocks', 'last_timeout', 'tracer', 'result', 'eps', 'vthread')


class World:
    """Deterministic discrete-event world.  The thread that calls run() is the scheduler; it
    executes bus deliveries (each stack's receive thread) and scripted main-line actions
    itself and hands the baton to controlled threads (job threads, application threads)."""

    def __init__(self, chooser=None, eps_wake=50e-6, wake_grid=None, trace_factory=None):
        self.now = T0
        self.sched_sem = _th.Semaphore(0)
        self.threads = []
        self.cur = None
        self.events = []
        self.seq = itertools.count()
        self.eps_wake = eps_wake
        self.wake_grid = wake_grid          # None: no choice point; else list, [0] is the default
        self.chooser = chooser or Chooser()
        self.killing = False
        self.switches = 0
        self.trace_factory = trace_factory  # fn(lt) -> tracer or None (C08)
        self.obs = []                       # observation log (harness-level)
        self.closed = False

    # ---- clock
    def clock_read(self):
        self.now += TICK
        c = self.cur
        if c is not None:
            c.reads += 1
            if c.reads > SPIN_LIMIT:
                c.spun = True
                raise BusySpin()
        return self.now

    # ---- choice points
    def choose(self, kind, options, info=None):
        if len(options) == 1:
            return options[0]
        return options[self.chooser.choose(kind, len(options), info)]

    # ---- threads
    def spawn(self, target, args=(), kwargs=None, name='app', kind='P'):
        kwargs = kwargs or {}
        lt = LT()
        lt.name = name
        lt.kind = kind
        lt.sem = _th.Semaphore(0)
        lt.done = False
        lt.exc = None
        lt.exc_type = None
        lt.wake_at = self.now
        lt.wait_q = None
        lt.pred = None
        lt.reads = 0
        lt.spun = False
        lt.blocks = 0
        lt.last_timeout = None
        lt.result = None
        lt.eps = self.eps_wake
        lt.vthread = None
        lt.tracer = self.trace_factory(lt, len(self.threads)) if self.trace_factory else None

        def body():
            lt.sem.acquire()
            if self.killing:
                lt.done = True
                self.sched_sem.release()
                return
            try:
                if lt.tracer is not None:
                    sys.settrace(lt.tracer)
                try:
                    lt.result = target(*args, **kwargs)
                finally:
                    if lt.tracer is not None:
                        sys.settrace(None)
            except Killed:
                pass
            except BusySpin:
                lt.exc = 'BusySpin'
                lt.exc_type = 'BusySpin'
            except Deadlock:
                lt.exc = 'Deadlock (the thread acquires a non-reentrant lock it already holds):\n' + traceback.format_exc()
                lt.exc_type = 'Deadlock'
            except BaseException as e:          # noqa: the thread dies, as it would in production
                lt.exc = traceback.format_exc()
                lt.exc_type = type(e).__name__
            lt.done = True
            lt.wake_at = None
            self.sched_sem.release()

        lt.os = _th.Thread(target=body, daemon=True)
        lt.os.start()
        self.threads.append(lt)
        return lt

    def _yield(self, lt):
        self.sched_sem.release()
        lt.sem.acquire()
        if self.killing:
            raise Killed()

    def _wake_latency(self, lt):
        if self.wake_grid is None or lt.kind != 'J':
            return self.eps_wake
        return self.choose('wake', self.wake_grid, lt.name)

    def block_on_queue(self, q, timeout):
        lt = self.cur
        if lt is None:
            raise HarnessError("blocking Queue.get on the scheduler thread")
        lt.wait_q = q
        q.waiter = lt
        lt.blocks += 1
        lt.last_timeout = timeout
        lt.eps = self._wake_latency(lt)         # latency of this wait, whatever ends it
        lt.wake_at = None if timeout is None else self.now + max(timeout, 0.0) + lt.eps
        lt.reads = 0
        self._yield(lt)
        lt.wait_q = None
        q.waiter = None

    def notify_put(self, q):
        lt = q.waiter
        t = self.now + lt.eps
        if lt.wake_at is None or t < lt.wake_at:
            lt.wake_at = t

    def sleep(self, dt):
        lt = self.cur
        lt.wake_at = self.now + dt
        lt.reads = 0
        self._yield(lt)

    def hold(self, dt):
        """pre-emption: park the current controlled thread for dt of virtual time"""
        lt = self.cur
        lt.wake_at = self.now + dt
        saved = lt.reads
        self._yield(lt)
        lt.reads = saved

    def wait_until(self, pred, timeout):
        lt = self.cur
        if pred():
            return True
        lt.pred = pred
        lt.wake_at = self.now + timeout
        lt.reads = 0
        self._yield(lt)
        lt.pred = None
        return bool(pred())

    def join(self, lt):
        if self.cur is None:
            # scheduler thread: run the world until the thread is done
            while not lt.done:
                if not self.step(self.now + 10.0):
                    raise HarnessError("join: thread does not end")
        else:
            self.wait_until(lambda: lt.done, 1e9)

    def at(self, t, fn):
        heapq.heappush(self.events, (t, next(self.seq), fn))

    def run_thread(self, lt):
        prev = self.cur
        self.cur = lt
        self.switches += 1
        lt.sem.release()
        self.sched_sem.acquire()
        self.cur = prev

    def _next(self):
        for lt in self.threads:
            if lt.pred is not None and not lt.done and lt.pred():
                t = self.now + self.eps_wake
                if lt.wake_at is None or t < lt.wake_at:
                    lt.wake_at = t
        best = None
        if self.events:
            best = (self.events[0][0], 0, None)
        for lt in self.threads:
            if not lt.done and lt.wake_at is not None:
                c = (lt.wake_at, 1, lt)
                if best is None or c[:2] < best[:2]:
                    best = c
        return best

    def step(self, until):
        """perform the next event (delivery or thread resumption) if it is due by `until`"""
        best = self._next()
        if best is None or best[0] > until:
            return False
        if best[0] > self.now:
            self.now = best[0]
        if best[2] is None:
            _, _, fn = heapq.heappop(self.events)
            fn()
        else:
            lt = best[2]
            lt.wake_at = None
            self.run_thread(lt)
        return True

    def run(self, until):
        global CUR
        CUR = self
        n = 0
        _arm()
        try:
            while self.step(until):
                n += 1
                if not n & 255:
                    _arm()              # a fresh budget: the watchdog is about one step, not about the whole run
        finally:
            _disarm()
        if until > self.now:
            self.now = until

    def run_for(self, dt):
        self.run(self.now + dt)

    def run_until(self, pred, max_dt):
        """run until pred() holds (checked after every step) or max_dt passed; returns pred()"""
        global CUR
        CUR = self
        limit = self.now + max_dt
        n = 0
        _arm()
        try:
            while not pred():
                if not self.step(limit):
                    if limit > self.now:
                        self.now = limit
                    break
                n += 1
                if not n & 255:
                    _arm()
        finally:
            _disarm()
        return bool(pred())

    def next_event_time(self):
        b = self._next()
        return None if b is None else b[0]

    # ---- status
    def dead_threads(self):
        """controlled threads that ended by an exception (incl. BusySpin)"""
        return [lt for lt in self.threads if lt.exc is not None]

    def jobs(self):
        return [lt for lt in self.threads if lt.kind == 'J']

    def shutdown(self):
        global CUR
        if self.closed:
            return
        self.closed = True
        self.killing = True
        for lt in self.threads:
            if not lt.done:
                lt.sem.release()
                self.sched_sem.acquire()
        for lt in self.threads:
            lt.os.join()
        if CUR is self:
            CUR = None


def activate(w):
    global CUR
    CUR = w
    return w
