"""DM14 memory-access harness: a real client MemoryAccess and a real server MemoryAccess on two
real stacks, each application on its own controlled thread (the client blocks in read/write,
the server application waits for the notify callback and calls respond), plus the `memmap`
reference model.  DESIGN.md section 4 / C17-C19."""
from . import rt
from .net import Bus, Stack, j1939
from .canon import canon

CLI, SRV, INTR, THIRD = 0xF9, 0xD4, 0xE5, 0xC0
DM14, DM15, DM16 = 0xD900, 0xD800, 0xD700


def key_of(seed):
    return (seed * 3 + 0x1111) & 0xFFFF


def mem_bytes(address, n, salt=0):
    """reference memory content: deterministic function of the address"""
    return [((address + i) * 37 + 11 + salt) & 0xFF for i in range(n)]


class HoldInDm14:
    """trace factory: numbers the line events one thread (the receive thread 'R:C' / 'R:S' or the application thread 'cliapp' /
    'srvapp') executes in the DM14 code (memory_access.py, Dm14Query.py, Dm14Server.py) and holds it at the chosen one"""
    FILES = ('memory_access.py', 'Dm14Query.py', 'Dm14Server.py')

    def __init__(self, thread, point, hold=0.002):
        self.thread, self.point, self.hold = thread, point, hold
        self.count = 0
        self.where = None

    def __call__(self, lt, idx):
        if lt.name != self.thread:
            return None
        me = self

        def tracer(frame, event, arg):
            if not frame.f_code.co_filename.endswith(me.FILES):
                return tracer if event == 'call' else None
            if event == 'line':
                me.count += 1
                if me.count == me.point:
                    me.where = "%s:%d" % (frame.f_code.co_name, frame.f_lineno)
                    rt.CUR.hold(me.hold)
            return tracer
        return tracer


class DmWorld:
    """cfg: {'seed': None | int, 'base_lat', 'lat_grid', 'wake_grid', 'client': 'facade' | 'query'}"""

    def __init__(self, cfg, prefix=()):
        self.cfg = cfg
        self.ch = rt.Chooser(prefix)
        self.pre = None
        if cfg.get('preempt'):
            self.pre = HoldInDm14(cfg['preempt']['thread'], cfg['preempt']['point'], cfg['preempt'].get('hold', 0.002))
        self.w = w = rt.World(self.ch, wake_grid=cfg.get('wake_grid'), trace_factory=self.pre)
        rt.activate(w)
        self.bus = bus = Bus(w, base_lat=cfg.get('base_lat', 1e-3), lat_grid=cfg.get('lat_grid'))
        bus.send_cost = cfg.get('send_cost', 0.0)      # a blocking driver (every send call of a stack takes this long)
        bus.send_visible = cfg.get('send_visible', 1.0)
        self.C = Stack(bus, 'C')
        self.S = Stack(bus, 'S')
        if cfg.get('rx_threads'):
            self.C.start_rx_thread()
            self.S.start_rx_thread()
        self.cli_addr = cfg.get('cli', CLI)
        self.cca = self.C.add_ca(self.cli_addr, name_value=0x501)
        self.sca = self.S.add_ca(SRV, name_value=0x502)
        self.cli = j1939.MemoryAccess(self.cca)
        self.srv = j1939.MemoryAccess(self.sca)
        self.client = self.cli if cfg.get('client', 'facade') == 'facade' else self.cli.query
        self.seed = cfg.get('seed')
        self.cur = {}                      # the operation in progress (scenario knowledge for the server app)
        if self.seed is not None:
            self.cli.set_seed_key_algorithm(self._client_key)
            self.srv.set_seed_key_algorithm(key_of)
            self.srv.set_seed_generator(lambda: self.seed)
        self.srv.set_proceed(self._proceed)
        self.srv.set_notify(self._notify)
        self.T = None
        if cfg.get('third'):
            # a third ECU that serves memory too: the server of the scenario may itself be its client
            self.T = Stack(bus, 'T')
            self.tca = self.T.add_ca(THIRD, name_value=0x503)
            self.tsrv = j1939.MemoryAccess(self.tca)
            self.tflag = 0
            self.tcalls = []
            self.tsrv.set_proceed(lambda *a: (self.tcalls.append(a), True)[1])
            self.tsrv.set_notify(lambda: setattr(self, 'tflag', self.tflag + 1))
        self.own_queries = []              # results of queries the serving ECU made itself
        self.flag = 0
        self.proceed_calls = []
        self.notifies = 0
        self.served = []                   # what the server application did
        self.results = []                  # what the client calls returned / raised
        self.stop = False
        self.deaf_server = False
        orig = self.S.handle
        self.S.handle = lambda fr: None if self.deaf_server else orig(fr)
        w.run_for(0.005)
        self.idle_ref = self.snapshot_states()

    # ---- callbacks on the server side
    def _client_key(self, seed):
        k = key_of(seed)
        if self.cur.get('variant') == 'wrongkey':
            k = self.cur.get('key', (k + 1) & 0xFFFF)
        return k

    def _proceed(self, *a):
        self.proceed_calls.append((self.w.now, a))
        return self.cur.get('variant') != 'refuse_proceed'

    def _notify(self):
        self.notifies += 1
        self.flag += 1

    # ---- application threads
    def server_app(self):
        w = self.w
        seen = 0
        while not self.stop:
            if not w.wait_until(lambda: self.flag > seen or self.stop, 1e6):
                return
            if self.stop:
                return
            seen = self.flag
            t, a = self.proceed_calls[-1]
            cmd, address, ptype, length, count = a[0], a[1], a[2], a[3], a[4]
            op = self.cur
            try:
                if op.get('variant') == 'refuse_respond':
                    r = self.srv.respond(False, [], op.get('error', 0x101), op.get('edcp', 0x07))
                    self.served.append(('refused', cmd, address, ptype, count, op.get('error', 0x101)))
                elif cmd == 1:
                    data = mem_bytes(address, op.get('nbytes', count), op.get('salt', 0))
                    self.srv.respond(True, list(data), 0xFFFF, 0xFF)
                    self.served.append(('read', cmd, address, ptype, count, bytes(data)))
                    if op.get('then_query'):
                        # the serving ECU is itself a client of a third ECU while its own transaction may still be closing
                        try:
                            r = self.srv.read(THIRD, 1, 0x5000, op['then_query'], 1, False, True, max_timeout=1)
                            self.own_queries.append(('ok', list(r)))
                        except rt.Killed:
                            raise
                        except BaseException as e:
                            self.own_queries.append(('exc', type(e).__name__, str(e)[:60]))
                else:
                    r = self.srv.respond(True, [], 0xFFFF, 0xFF, max_timeout=op.get('srv_timeout', 3))
                    self.served.append(('write', cmd, address, ptype, count, None if r is None else bytes(r)))
            except rt.Killed:
                raise
            except BaseException as e:
                self.served.append(('server-exception', type(e).__name__, str(e)[:80]))

    def client_app(self, ops):
        w = self.w
        for op in ops:
            self.cur = op
            self.deaf_server = op.get('variant') == 'absent'
            t0 = w.now
            n0 = len(self.bus.log)
            res = {'op': op, 't0': t0, 'frame0': n0}
            try:
                if op['cmd'] == 'read':
                    r = self.client.read(SRV, op.get('direct', 1), op['address'], op['count'], op.get('size', 1),
                                         op.get('signed', False), op.get('raw', True), max_timeout=op.get('timeout', 1))
                    res['ret'] = list(r) if r is not None else None
                else:
                    vals = op['values']
                    r = self.client.write(SRV, op.get('direct', 1), op['address'], list(vals), op.get('size', 1),
                                          max_timeout=op.get('timeout', 1))
                    res['ret'] = r
            except rt.Killed:
                raise
            except BaseException as e:
                res['exc'] = (type(e).__name__, str(e))
            res['t1'] = w.now
            self.results.append(res)
            w.sleep(op.get('gap', 1.5))          # idle gap: everything settles (TP timeouts included)
            res['frame1'] = len(self.bus.log)
        self.stop = True

    def third_app(self):
        w = self.w
        seen = 0
        while not self.stop:
            if not w.wait_until(lambda: self.tflag > seen or self.stop, 1e6) or self.stop:
                return
            seen = self.tflag
            a = self.tcalls[-1]
            try:
                self.tsrv.respond(True, mem_bytes(a[1], a[4], 9), 0xFFFF, 0xFF)
            except rt.Killed:
                raise
            except BaseException:
                pass

    def run(self, ops, horizon=None):
        w = self.w
        if self.T is not None:
            w.spawn(self.third_app, name='thirdapp')
        w.spawn(self.server_app, name='srvapp')
        w.spawn(self.client_app, (ops,), name='cliapp')
        total = sum(op.get('timeout', 1) + op.get('gap', 1.5) + 3.5 for op in ops) + 1.0
        w.run_until(lambda: self.stop, horizon or total)
        w.run_for(0.01)
        return self

    # ---- observations
    def snapshot_states(self):
        return {'client facade': self.cli.state.name, 'client query': self.cli.query.state.name,
                'server facade': self.srv.state.name, 'server': self.srv.server.state.name}

    def dead(self):
        out = []
        for lt in self.w.threads:
            if lt.exc is not None:
                out.append("%s died: %s" % (lt.name, lt.exc_type))
        for st in (self.C, self.S):
            if st.rx_raised:
                out.append("receive thread of %s: handler raised %s" % (st.name, st.rx_raised[0]))
        return out

    def trace(self):
        lines = [f.brief() for f in self.bus.log]
        for r in self.results:
            lines.append("client %s -> %s" % ({k: v for k, v in r['op'].items() if k != 'values'}, r.get('ret', r.get('exc'))))
        for s in self.served:
            lines.append("server app: %r" % (s,))
        lines.append("states: %r" % (self.snapshot_states(),))
        for lt in self.w.threads:
            if lt.exc:
                lines.append("thread %s died:\n%s" % (lt.name, lt.exc))
        return lines

    def close(self):
        self.w.shutdown()


def values_of(raw, size, signed):
    return [int.from_bytes(bytes(raw[i * size:(i + 1) * size]), 'little', signed=signed) for i in range(len(raw) // size)]


def bytes_of(values, size):
    out = []
    for v in values:
        out += list(int(v).to_bytes(size, 'little'))
    return out
