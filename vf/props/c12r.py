"""C12 on the restricted alphabet {add, remove, gap} (deeper histories)."""
from .c12 import step, probe, cfg_of, alphabet_restricted as alphabet   # noqa: F401
