#!/bin/bash
# runs the thorough tier of the given checks (default: all) in /verif against /repo, keeps a copy of each evidence file
# under evidence_thorough/ and a summary in thorough_results.json; afterwards re-runs the quick tier so that
# evidence/<id>.json again describes the quick run (the file is rewritten by every run)
cd /verif
props=${@:-C01 C02 C03 C04 C05 C06 C07 C08 C09 C10 C11 C12 C13 C14 C15 C16 C17 C18 C19}
mkdir -p evidence_thorough
for c in $props; do
  s=$(date +%s)
  ./check $c --tier thorough > /tmp/thorough_$c.log 2>&1; rc=$?
  echo "$c rc=$rc $(( $(date +%s)-s ))s $(tail -1 /tmp/thorough_$c.log)"
  if [ $rc = 0 ]; then cp evidence/$c.json evidence_thorough/$c.json; fi
  ./check $c --tier quick > /dev/null 2>&1
done
/venv/bin/python - <<'PY'
import json, glob
out = {}
for f in sorted(glob.glob('/verif/evidence_thorough/C*.json')):
    e = json.load(open(f)); c = e['coverage']
    out[e['property_id']] = {'evaluations': c.get('evaluations'), 'distinct_nontrivial': c.get('distinct_nontrivial'), 'states': c.get('states'),
                             'transitions': c.get('transitions'), 'wall_s': e['wall_s'], 'exhaustive': c.get('exhaustive'), 'violations': e.get('violations')}
json.dump(out, open('/verif/thorough_results.json', 'w'), indent=1)
PY
