"""C07 - no sequence of received frames can stop, stall or permanently clog the stack.
Explicit-state BFS over frame / local-action / time-gap histories on one real stack, with a
recovery probe from every distinct state.  DESIGN.md section 4 / C07."""
import time

from .. import rt
from ..runner import Acc, report
from ..scen import Net
from ..canon import canon, digest
from .. import mc
from .c01 import msg

PROP = 'C07'
X, P1, P2, F = 0x80, 0x90, 0x91, 0x33
PGN = [0x00, 0xD0, 0x00]
STEP = 0.001
SPIN = 6000


def cid(pf, da, sa, prio=7):
    return (prio << 26) | (pf << 16) | (da << 8) | sa


def fsym(pf, da, sa, data):
    return ('f', cid(pf, da, sa), bytes(data).hex())


# ------------------------------------------------------------------ alphabets
def alphabet21():
    A = []
    cm = lambda sa, da, d: fsym(0xEC, da, sa, d)
    dt = lambda sa, da, d: fsym(0xEB, da, sa, d)
    rts = lambda size, n, lim: [16, size & 0xFF, size >> 8, n, lim] + PGN
    A += [cm(P1, X, rts(20, 3, 255)), cm(P1, X, rts(0, 0, 1)), cm(P1, X, rts(20, 0, 255)),
          cm(P1, X, rts(0xFFFF, 255, 255)), cm(P1, X, rts(9, 2, 0)), cm(P2, X, rts(20, 3, 1)),
          cm(P1, F, rts(20, 3, 255)), cm(P1, 255, rts(20, 3, 255)), cm(X, X, rts(20, 3, 255)),
          cm(254, X, rts(20, 3, 255)), cm(255, X, rts(20, 3, 255)),
          # connection management from the global address 255: matches the key of an own broadcast session
          cm(255, X, [17, 1, 1, 255, 255] + PGN), cm(255, X, [19, 17, 0, 3, 255] + PGN), cm(255, X, [255, 1, 255, 255, 255] + PGN)]
    cts = lambda n, nxt: [17, n, nxt, 255, 255] + PGN
    A += [cm(P1, X, cts(1, 1)), cm(P1, X, cts(1, 2)), cm(P1, X, cts(1, 3)), cm(P1, X, cts(2, 1)),
          cm(P1, X, cts(0, 255)), cm(P1, X, cts(255, 1)), cm(P1, X, cts(1, 4)), cm(P1, X, cts(1, 0)),
          cm(P2, X, cts(1, 1)), cm(P1, 255, cts(1, 1))]
    seg = lambda s: [s, 1, 2, 3, 4, 5, 6, 7]
    A += [dt(P1, X, seg(1)), dt(P1, X, seg(2)), dt(P1, X, seg(3)), dt(P1, X, seg(0)), dt(P1, X, seg(255)),
          dt(P1, 255, seg(1)), dt(P1, 255, seg(2)), dt(P1, 255, seg(3)), dt(P2, X, seg(1)), dt(P1, F, seg(1))]
    A += [cm(P1, X, [19, 21, 0, 3, 255] + PGN), cm(P2, X, [19, 9, 0, 2, 255] + PGN),
          cm(P1, 255, [32, 20, 0, 3, 255] + PGN), cm(P1, 255, [32, 9, 0, 2, 255] + PGN),
          cm(P1, 255, [32, 0, 0, 0, 255] + PGN), cm(P1, X, [32, 20, 0, 3, 255] + PGN),
          cm(P2, 255, [32, 20, 0, 3, 255] + PGN),
          cm(P1, X, [255, 1, 255, 255, 255] + PGN), cm(P2, X, [255, 3, 255, 255, 255] + PGN),
          cm(P1, 255, [255, 1, 255, 255, 255] + PGN),
          cm(P1, X, [0x55, 1, 2, 3, 4] + PGN),
          cm(P1, X, []), cm(P1, X, [16]), cm(P1, X, [16, 20, 0, 3]), cm(P1, X, [17, 1, 1, 255, 255, 0, 0xD0]),
          dt(P1, X, []), dt(P1, X, [1]), dt(P1, X, [2, 1, 2, 3])]
    A += [('send', 'p2p'), ('send', 'p2p2'), ('send', 'bam')]
    A += [('gap', 0.06), ('gap', 0.3), ('gap', 0.8), ('gap', 1.3), ('gap', 3.1)]
    return A


def cm22(sa, da, ctrl, sess, size, seg, b7, b8, n=12):
    d = [ctrl | (sess << 4), size & 0xFF, (size >> 8) & 0xFF, (size >> 16) & 0xFF,
         seg & 0xFF, (seg >> 8) & 0xFF, (seg >> 16) & 0xFF, b7, b8] + PGN
    return fsym(0x4D, da, sa, d[:n])


def dt22(sa, da, sess, seg, n=60):
    d = [sess << 4, seg & 0xFF, (seg >> 8) & 0xFF, (seg >> 16) & 0xFF] + [(seg * 3 + i) & 0xFF for i in range(n)]
    return fsym(0x4E, da, sa, d)


def alphabet22():
    A = []
    cm, dt = cm22, dt22

    A += [cm(P1, X, 0, 0, 150, 3, 255, 0), cm(P1, X, 0, 9, 150, 3, 255, 0), cm(P1, X, 0, 0, 0, 0, 1, 0),
          cm(P1, X, 0, 0, 0xFFFFFF, 0xFFFFFF, 255, 0), cm(P1, X, 0, 1, 150, 3, 0, 0), cm(P2, X, 0, 0, 150, 3, 1, 0),
          cm(P1, F, 0, 0, 150, 3, 255, 0), cm(P1, 255, 0, 0, 150, 3, 255, 0), cm(X, X, 0, 0, 150, 3, 255, 0),
          cm(254, X, 0, 0, 150, 3, 255, 0)]
    # CTS: byte 5..7 next segment, byte 8 number of segments
    A += [cm(P1, X, 1, 0, 0xFFFFFF, 1, 1, 0), cm(P1, X, 1, 0, 0xFFFFFF, 2, 1, 0), cm(P1, X, 1, 0, 0xFFFFFF, 3, 1, 0),
          cm(P1, X, 1, 0, 0xFFFFFF, 1, 2, 0), cm(P1, X, 1, 0, 0xFFFFFF, 1, 0, 0), cm(P1, X, 1, 0, 0xFFFFFF, 1, 255, 0),
          cm(P1, X, 1, 0, 0xFFFFFF, 4, 1, 0), cm(P1, X, 1, 0, 0xFFFFFF, 0, 1, 0), cm(P1, X, 1, 5, 0xFFFFFF, 1, 1, 0),
          cm(P2, X, 1, 1, 0xFFFFFF, 1, 1, 0), cm(P1, X, 1, 0, 0xFFFFFF, 0xFFFFFF, 1, 0)]
    A += [dt(P1, X, 0, 1), dt(P1, X, 0, 2), dt(P1, X, 0, 3, 30), dt(P1, X, 0, 0), dt(P1, X, 0, 0xFFFFFF),
          dt(P1, X, 9, 1), dt(P1, 255, 0, 1), dt(P1, 255, 0, 2), dt(P1, 255, 0, 3, 30), dt(P1, X, 0, 1, 1),
          dt(P1, X, 0, 1, 0), dt(P2, X, 0, 1), dt(P1, 255, 5, 1)]
    A += [cm(P1, X, 2, 0, 150, 3, 0, 0), cm(P1, X, 2, 0, 149, 3, 0, 0), cm(P1, X, 2, 9, 150, 3, 0, 0),
          cm(P1, 255, 2, 0, 150, 3, 0, 0), cm(P1, 255, 2, 5, 150, 3, 0, 0), cm(P1, X, 2, 3, 150, 3, 0, 0),
          cm(P1, X, 3, 0, 180, 3, 255, 255), cm(P1, X, 3, 3, 150, 3, 255, 255), cm(P2, X, 3, 1, 100, 2, 255, 255),
          cm(P1, 255, 4, 0, 150, 3, 255, 0), cm(P1, 255, 4, 5, 150, 3, 255, 0), cm(P1, 255, 4, 0, 0, 0, 255, 0),
          cm(P2, 255, 4, 0, 150, 3, 255, 0), cm(P1, X, 4, 0, 150, 3, 255, 0),
          cm(P1, X, 15, 0, 0xFFFFFF, 0xFFFFFF, 255, 1), cm(P1, X, 15, 12, 0xFFFFFF, 0xFFFFFF, 255, 1),
          cm(P2, X, 15, 1, 0xFFFFFF, 0xFFFFFF, 255, 3),
          cm(P1, X, 7, 0, 1, 1, 1, 1), cm(P1, X, 0, 0, 150, 3, 255, 0, n=8), cm(P1, X, 0, 0, 150, 3, 255, 0, n=0)]
    # connection management from the global address 255 (illegal source): matches the key of an own broadcast session
    A += [cm(255, X, 3, 0, 176, 3, 255, 255), cm(255, X, 1, 0, 0xFFFFFF, 1, 1, 0), cm(255, X, 15, 0, 0xFFFFFF, 0xFFFFFF, 255, 1),
          cm(255, X, 2, 0, 176, 3, 0, 0)]
    # multi-PG frames (pf 0x25): one good C-PG, truncated, oversized length, padding only, too short
    hdr = lambda tos, ln: [(tos << 5), 0xF0, 0x04, ln]
    A += [fsym(0x25, X, P1, hdr(2, 8) + [1, 2, 3, 4, 5, 6, 7, 8]), fsym(0x25, X, P1, hdr(2, 20) + [1, 2, 3, 4, 5]),
          fsym(0x25, X, P1, hdr(2, 255) + [9] * 60), fsym(0x25, X, P1, hdr(0, 0) + [0xAA] * 8),
          fsym(0x25, X, P1, [0x40, 0xF0]), fsym(0x25, 255, P1, hdr(2, 3) + [1, 2, 3] + hdr(3, 2) + [1, 2] + hdr(2, 1) + [7]),
          fsym(0x25, X, P1, [])]
    # J1939-21 transport identifiers on an FD network
    A += [fsym(0xEC, X, P1, [16, 20, 0, 3, 255, 0, 0xD0, 0]), fsym(0xEB, X, P1, [1, 1, 2, 3, 4, 5, 6, 7])]
    A += [('send', 'p2p'), ('send', 'p2p2'), ('send', 'bam'), ('send', 'mpg')]
    A += [('gap', 0.012), ('gap', 0.3), ('gap', 0.8), ('gap', 1.3), ('gap', 3.1)]
    return A


_ALPHA = {}


def alphabet(hist):
    dll = hist[0][1]
    if dll not in _ALPHA:
        _ALPHA[dll] = alphabet21() if dll == 'j1939-21' else alphabet22()
    return _ALPHA[dll]


def cfg_of(hist):
    return list(hist[0])


# ------------------------------------------------------------------ building a state
class Built:
    def __init__(self, hist):
        _c, dll, win = hist[0][:3]
        self.raising = len(hist[0]) > 3 and hist[0][3] == 'raising'
        rt_spin = rt.SPIN_LIMIT
        self.sc = {'dll': dll, 'base_lat': 0.2e-3,
                   'stacks': [{'name': 'X', 'cas': [X], 'win': win}, {'name': 'Y', 'cas': [P1], 'win': 1}]}
        self.net = Net(self.sc)
        self.dll = dll
        self.x = self.net.stacks[0]
        self.y = self.net.stacks[1]
        self.y.deaf = True
        self.y.silent_from = 0
        self.peer = self.net.bus.ghost_node()
        if self.raising:
            # the application's subscriber callbacks of X raise (an application bug): contained by the bus listener, and no
            # session may be left behind because of it
            def hook(tag, priority, pgn, sa, data):
                if self.raising and tag.startswith('X.'):
                    raise RuntimeError("subscriber callback failed")
            self.net.rec.hooks.append(hook)
        self.big = 21 if dll == 'j1939-21' else 180      # own messages: exact multiples of the packet size
        for s in hist[1:]:
            self.apply(s)
            if self.x.job.done:
                break

    def apply(self, s):
        net = self.net
        w = net.w
        if s[0] == 'f':
            self.peer.send(s[1], bytes.fromhex(s[2]), fd=(self.dll == 'j1939-22'))
            w.run_for(STEP)
        elif s[0] == 'gap':
            w.run_for(s[1])
        elif s[0] == 'send':
            ca = net.owner[X][1]
            try:
                if s[1] == 'p2p':
                    ca.send_pgn(0, 0xD0, P1, 6, [(i * 5 + 1) & 0xFF for i in range(self.big)])
                elif s[1] == 'p2p2':
                    ca.send_pgn(0, 0xD1, P2, 6, [(i * 3 + 2) & 0xFF for i in range(self.big // 2 + (51 if self.dll == 'j1939-22' else 0))])
                elif s[1] == 'bam':
                    ca.send_pgn(0, 0xFE, 0x21, 6, [(i * 7 + 3) & 0xFF for i in range(self.big - 4)])
                elif s[1] == 'mpg':
                    ca.send_pgn(0, 0xFE, 0x22, 6, [1, 2, 3, 4, 5, 6, 7, 8], time_limit=0.05)
            except Exception:
                pass              # a refused / failing local call is the caller's business
            w.run_for(STEP)

    def problems(self):
        lt = self.x.job
        if lt.exc is not None:
            return self.net.job_problems()[:1]
        if lt.done:
            return ["job thread of X ended"]
        return []

    def digest(self):
        w = self.net.w
        lt = self.x.job
        wake = None if lt.wake_at is None else int(round((lt.wake_at - w.now) * 1000))
        pend = len(w.events)
        return digest((canon(self.x.ecu, w.now, depth=4), wake, pend))

    def close(self):
        self.net.close()


def step(hist):
    old = rt.SPIN_LIMIT
    rt.SPIN_LIMIT = SPIN
    try:
        b = Built(hist)
        try:
            probs = b.problems()
            return (b.digest() if not probs else None), probs, None
        finally:
            b.close()
    finally:
        rt.SPIN_LIMIT = old


def probe(hist):
    """recovery probe: 3.1 s of silence, then idle tables, a timer on time, and four
    well-formed transfers (RTS/CTS and BAM, each direction) against a second real stack"""
    old = rt.SPIN_LIMIT
    rt.SPIN_LIMIT = SPIN
    try:
        b = Built(hist)
        try:
            net = b.net
            w = net.w
            probs = b.problems()
            if probs:
                return probs
            w.run_for(3.1)
            probs = b.problems()
            if probs:
                return ["after 3.1 s of silence: " + probs[0]]
            if not net.is_idle(b.x):
                return ["after 3.1 s of silence: " + net.idle_problems()[0]]
            b.raising = False          # the follow-up is judged with well-behaved subscribers
            fired = []
            t_arm = w.now
            b.x.ecu.add_timer(0.05, lambda cookie: fired.append(w.now) and False)
            b.y.deaf = False
            b.y.silent_from = None
            n0 = len(net.rec.items)
            big = b.big + 3
            for m in (msg(X, 'p2p', P1, big), msg(P1, 'p2p', X, big + 1), msg(X, 'bam2', 0x31, big + 2),
                      msg(P1, 'bam2', 0x32, big)):
                net.submit(m, 5)
            w.run_for(1.0 if b.dll == 'j1939-21' else 0.6)
            if not fired or not (0.05 - 1e-4 <= fired[0] - t_arm <= 0.05 + 0.005 + 1e-3):
                probs.append("timer armed after the traffic fired %s (due after 0.05 s)" % (
                    'never' if not fired else 'after %.4f s' % (fired[0] - t_arm)))
            net.rec.items = net.rec.items[n0:]
            for (m, r, _b, _a, _d) in net.sent:
                if r is not True:
                    probs.append("follow-up send_pgn returned %r" % (r,))
            jd = net.judge_deliveries()
            if jd:
                probs.append("follow-up transfer not delivered intact: " + jd[0])
            probs += b.problems()
            return probs
        finally:
            b.close()
    finally:
        rt.SPIN_LIMIT = old


def services_one(kind, n, fill, refuse, seed_key, keep=False):
    """truncated frames for the paths behind the transport protocol - address claim for the stack's own address, request,
    DM14 / DM15 / DM16, DM1 - with 0..7 data bytes, fed to a stack that runs an operational CA, a memory-access server (whose
    application refuses or serves) and a DM1 subscriber; afterwards the CA still holds its address, a well-formed memory read by
    a real client succeeds and a well-formed DM1 reaches the subscriber.  Exceptions to the caller are allowed."""
    from ..dm14 import DmWorld, SRV, CLI, mem_bytes
    from .c17 import rd
    from ..net import j1939
    d = DmWorld({'seed': 0xA55A if seed_key else None})
    try:
        w = d.w
        got_dm1 = []
        dm1 = j1939.Dm1(d.sca)
        dm1.subscribe(lambda sa, lamps, dtcs, ts: got_dm1.append((sa, len(dtcs))))
        g = d.bus.ghost_node()
        pf, da, sa = {'claim': (0xEE, 0xFF, SRV), 'request': (0xEA, SRV, 0x99), 'dm14': (0xD9, SRV, 0x99), 'dm15': (0xD8, SRV, 0x99),
                      'dm16': (0xD7, SRV, 0x99), 'dm1': (0xFE, 0xCA, 0x99)}[kind]
        d.cur = {'variant': 'refuse_proceed'} if refuse else {}
        raised = []
        orig = d.S.handle

        def guarded(fr):
            try:
                orig(fr)
            except Exception as e:          # noqa: legal for a malformed frame (the real MessageListener contains it as well)
                raised.append(type(e).__name__)
        d.S.handle = guarded
        g.send((6 << 26) | (pf << 16) | (da << 8) | sa, bytes([fill] * n))
        w.run_for(0.01)
        d.S.handle = orig
        probs = []
        if d.sca.state != j1939.ControllerApplication.State.NORMAL or d.sca.device_address != SRV:
            probs.append("a truncated %s frame (%d bytes) took the CA's address away (state %r, address %r)" % (kind, n, d.sca.state, d.sca.device_address))
        else:
            op = rd(0x1000, 4)
            d.run([op])
            r = d.results[0] if d.results else {}
            if r.get('ret') != mem_bytes(0x1000, 4):
                probs.append("after a truncated %s frame (%d bytes) a well-formed memory read does not succeed any more: %r"
                             % (kind, n, r.get('exc', r.get('ret'))))
            g.send((6 << 26) | (0xFE << 16) | (0xCA << 8) | 0x77, bytes([0x04, 0xFF, 0x64, 0x00, 0x03, 0x01, 0xFF, 0xFF]))
            w.run_for(0.01)
            if got_dm1[-1:] != [(0x77, 1)]:
                probs.append("after a truncated %s frame (%d bytes) a well-formed DM1 does not reach the subscriber: %r" % (kind, n, got_dm1[-2:]))
        for lt in w.threads:
            if lt.exc is not None:
                probs.append("%s died: %s" % (lt.name, lt.exc_type))
        return probs, [f.brief() for f in d.bus.log] + ["raised to the caller: %r" % raised] if keep else None
    finally:
        d.close()


def services_worker(item):
    _k, kind = item
    acc = Acc()
    for n in range(0, 8):
        for fill in (0x00, 0xFF):
            for refuse in (False, True):
                for seed_key in (False, True):
                    if kind not in ('dm14',) and (refuse or seed_key):
                        continue
                    probs, _ = services_one(kind, n, fill, refuse, seed_key)
                    sc = {'services': {'kind': kind, 'n': n, 'fill': fill, 'refuse': refuse, 'seed_key': seed_key}, 'history': [], 'cfg': ['services']}
                    acc.transitions += 1
                    if probs:
                        import re
                        acc.violation(re.sub(r'\(\d+ bytes\)', '(N bytes)', probs[0].split(':')[0]), sc, None, probs[:3])
    return acc


def csig(probs):
    p = probs[0]
    if p.startswith('follow-up transfer not delivered'):
        return 'follow-up transfer not delivered intact'
    if 'not idle' in p:
        return p.split(': containers')[0]
    if p.startswith('timer armed'):
        return 'timer armed after the traffic does not fire on time'
    return p


# ------------------------------------------------------------------ seeds
def seeds(dll, win):
    """every prefix of every well-formed exchange (inbound / outbound RTS/CTS, inbound /
    outbound BAM), expressed in the alphabet"""
    A = alphabet([('cfg', dll, win)])
    out = []
    if dll == 'j1939-21':
        cm = lambda sa, da, d: fsym(0xEC, da, sa, d)
        dt = lambda sa, da, s: fsym(0xEB, da, sa, [s, 1, 2, 3, 4, 5, 6, 7])
        inbound = [cm(P1, X, [16, 20, 0, 3, 255] + PGN), dt(P1, X, 1), dt(P1, X, 2), dt(P1, X, 3)]
        if win == 1:
            outbound = [('send', 'p2p'), cm(P1, X, [17, 1, 1, 255, 255] + PGN), cm(P1, X, [17, 1, 2, 255, 255] + PGN),
                        cm(P1, X, [17, 1, 3, 255, 255] + PGN), cm(P1, X, [19, 21, 0, 3, 255] + PGN)]
        else:
            outbound = [('send', 'p2p'), cm(P1, X, [17, 2, 1, 255, 255] + PGN), cm(P1, X, [17, 1, 3, 255, 255] + PGN),
                        cm(P1, X, [19, 21, 0, 3, 255] + PGN)]
        bam_in = [cm(P1, 255, [32, 20, 0, 3, 255] + PGN), dt(P1, 255, 1), dt(P1, 255, 2), dt(P1, 255, 3)]
        bam_out = [('send', 'bam'), ('gap', 0.06), ('gap', 0.06)]
    else:
        cm, dt = cm22, dt22
        rts = cm(P1, X, 0, 0, 150, 3, 255, 0)
        cts1, cts2, cts3 = (cm(P1, X, 1, 0, 0xFFFFFF, k, 1, 0) for k in (1, 2, 3))
        cts12 = cm(P1, X, 1, 0, 0xFFFFFF, 1, 2, 0)
        d1, d2, d3 = dt(P1, X, 0, 1), dt(P1, X, 0, 2), dt(P1, X, 0, 3, 30)
        eoms, eoma = cm(P1, X, 2, 0, 150, 3, 0, 0), cm(P1, X, 3, 0, 180, 3, 255, 255)
        bam, beoms = cm(P1, 255, 4, 0, 150, 3, 255, 0), cm(P1, 255, 2, 0, 150, 3, 0, 0)
        bd1, bd2, bd3 = dt(P1, 255, 0, 1), dt(P1, 255, 0, 2), dt(P1, 255, 0, 3, 30)
        inbound = [rts, d1, d2, d3, eoms]
        outbound = [('send', 'p2p'), cts1, cts2, cts3, eoma] if win == 1 else [('send', 'p2p'), cts12, cts3, eoma]
        bam_in = [bam, bd1, bd2, bd3, beoms]
        bam_out = [('send', 'bam'), ('gap', 0.012), ('gap', 0.012), ('gap', 0.012)]
        mpg = [('send', 'mpg')]
        out.append(mpg)
    for ex in (inbound, outbound, bam_in, bam_out):
        for k in range(1, len(ex) + 1):
            out.append(ex[:k])
    for ex in out:
        for s in ex:
            assert s in A, s
    return out


RULE = ("state = canonical form of the real ECU object graph (generic vars() walk: session tables with deadlines "
        "relative to now on a 1 ms grid, pools, timers, queue length) + job thread's blocked-until; transition = one "
        "alphabet symbol (a protocol frame from a peer / own / illegal source to a local / foreign / global "
        "destination, a local send_pgn, or a time gap) applied to the real stack; BFS from the initial state and "
        "from every prefix of every well-formed exchange; every distinct state gets a recovery probe")
ASSUME = ["alphabet of ~55 (J1939-21) / ~85 (J1939-22) symbols; sequences longer than the completed depth are covered "
          "only as far as they stay inside the expanded region (depth and frontier status are reported)",
          "relative deadlines are merged on a 1 ms grid", "a frame symbol is delivered 0.2 ms after it is sent and the "
          "next symbol follows 1 ms later; longer gaps are symbols of their own"]


def run(tier, seed):
    t0 = time.time()
    acc = Acc()
    nontrivial, outcomes = set(), set()
    quick = tier == 'quick'
    plan = []
    for dll in ('j1939-21', 'j1939-22'):
        for win in (1, 2):
            cfg = ('cfg', dll, win)
            roots = [[cfg]]
            depths = [(3 if quick else 4) if win == 1 else (2 if quick else 3)]
            for sd in seeds(dll, win):
                roots.append([cfg] + list(sd))
                depths.append(1 if quick else 2)
            plan.append((cfg, roots, depths))
    # the same exchanges with subscriber callbacks that raise: every prefix of the well-formed exchanges, depth 1
    for dll in ('j1939-21', 'j1939-22'):
        cfg = ('cfg', dll, 1, 'raising')
        roots = [[cfg]] + [[cfg] + list(sd) for sd in seeds(dll, 1)]
        plan.append((cfg, roots, [2 if quick else 3] + [1] * (len(roots) - 1)))
    info = {}
    try:
        for cfg, roots, depths in plan:
            r = mc.bfs('vf.props.c07', roots, lambda i, d=depths: d[i], acc,
                       probe=True, sig=csig)
            info['%s win=%d%s' % (cfg[1], cfg[2], ' raising subscribers' if len(cfg) > 3 else '')] = {'states_per_level': r['levels'], 'depth_completed': r['depth_completed'],
                                                   'frontier_emptied': r['frontier_emptied'], 'roots': len(roots)}
            seen_items = list(r['seen'].items())
            for dig, h in seen_items[len(seen_items) // 2:len(seen_items) // 2 + 1]:
                acc.sample({'configuration': list(cfg[1:]), 'history': h, 'note': 'one of the distinct states (history of symbols: '
                            "('f', can id, data hex) = frame from the bus, ('send', kind) = local send_pgn, ('gap', seconds))"})
            for dig in r['seen']:
                nontrivial.add(hash(dig))
        # the paths behind the transport protocol: truncated claim / request / DM frames
        from ..runner import make_pool, pmap
        pool = make_pool(6)
        try:
            for a in pmap(pool, services_worker, [('services', k) for k in ('claim', 'request', 'dm14', 'dm15', 'dm16', 'dm1')]):
                acc.transitions += a.transitions
                acc.violations.extend(a.violations)
        finally:
            pool.close()
            pool.join()
        acc.evals = acc.transitions
    except RuntimeError as e:
        print("HARNESS-ERROR property=%s\n%s" % (PROP, e))
        return 2
    acc.extra['per_configuration'] = info
    acc.extra['alphabet_sizes'] = {'j1939-21': len(alphabet21()), 'j1939-22': len(alphabet22())}
    return report(PROP, tier, seed, 'model_checking', acc, nontrivial, outcomes, RULE, ASSUME, t0,
                  exhaustive=False, mc=True, nitems=len(plan),
                  bounds={'depth_from_initial_state': 3 if quick else 4, 'depth_from_seed_states': 1 if quick else 2})


def replay(rec):
    sc = rec['scenario']
    if sc.get('services'):
        x = sc['services']
        probs, trace = services_one(x['kind'], x['n'], x['fill'], x['refuse'], x['seed_key'], keep=True)
        print("\n".join(trace))
        if probs:
            print("REPRODUCED: " + "; ".join(probs))
            print("VIOLATION property=%s replay=(this file)" % PROP)
            return 1
        print("no violation on this tree")
        return 0
    hist = [tuple(x) if isinstance(x, list) else x for x in sc['history']]
    hist = [tuple(h) for h in hist]
    b = Built(hist)
    try:
        print("\n".join(b.net.trace()))
        probs = b.problems()
    finally:
        b.close()
    if not probs and sc.get('probe'):
        probs = probe(hist)
    if probs:
        print("REPRODUCED: " + "; ".join(probs))
        print("VIOLATION property=%s replay=(this file)" % PROP)
        return 1
    print("no violation on this tree")
    return 0
