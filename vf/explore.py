"""Stateless, deviation-bounded exploration (DESIGN.md 2.5).

An execution is identified by its list of choices [(kind, index), ...]; index 0 is always the
default.  explore() replays a prefix, lets the run take defaults afterwards, and branches on
every later choice point whose alternative keeps the number of deviations <= bound.  Level
order (0 deviations, then 1, then 2 ...) so that the first violation has the fewest deviations."""
import collections

from . import rt


def explore(run, bound, kinds=None, cap=None, prune=lambda result: bool(result[0])):
    """run(prefix) -> (points, result); points as recorded by rt.Chooser.
    yields (choices, ndev, result) for every execution with at most `bound` deviations.
    kinds: optional set of choice kinds that may deviate.  cap: optional execution cap
    (the caller must report it when hit: the generator sets explore.capped).  prune(result): do not
    branch below an execution that already violates (result[0] is the problem list by convention)."""
    explore.capped = False
    todo = collections.deque([[]])
    n = 0
    while todo:
        prefix = todo.popleft()
        points, result = run(prefix)
        n += 1
        choices = [(k, c) for (k, _n, c, _i) in points]
        if choices[:len(prefix)] != [tuple(p) for p in prefix]:
            raise rt.HarnessError("replay divergence: %r vs %r" % (prefix, choices[:len(prefix)]))
        ndev = sum(1 for (_k, c) in choices if c)
        yield choices, ndev, result
        if cap is not None and n >= cap:
            explore.capped = bool(todo)
            return
        dev = sum(1 for (_k, c) in prefix if c)
        if dev >= bound:
            continue
        if prune is not None and prune(result):
            continue                      # a violating execution is reported, not refined further
        for i in range(len(prefix), len(points)):
            kind, nopt, _c, _info = points[i]
            if kinds is not None and kind not in kinds:
                continue
            for alt in range(1, nopt):
                todo.append(choices[:i] + [(kind, alt)])


explore.capped = False


def trim(choices):
    """drop the trailing default choices (a replay takes defaults after the prefix anyway)"""
    c = list(choices)
    while c and c[-1][1] == 0:
        c.pop()
    return c
