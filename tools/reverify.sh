#!/bin/bash
# usage: tools/reverify.sh <id> <rebased patch>   re-confirms a seeded change whose patch had to be re-created at /repo's HEAD
# (a later fix commit changed its context): demo passes on HEAD, pinned suite passes with the patch, demo fails with it;
# then replaces seeded/<id>/patch.diff and notes it in meta.json
id=$1; P=$(readlink -f $2); D=/verif/seeded/$id
WT=/tmp/wt_$id
git -C /repo worktree add -q --detach -f $WT HEAD || exit 9
cd $WT
if [ -f $D/demo.py ]; then r0=$(PYTHONPATH=$WT timeout 120 /venv/bin/python $D/demo.py >/dev/null 2>&1; echo $?); else r0=0; fi
git apply $P || { echo "$id: rebased patch does not apply"; cd /; git -C /repo worktree remove --force $WT; exit 8; }
t=$(timeout 900 /venv/bin/python -m pytest -q -p no:cacheprovider --timeout=900 2>&1 | tail -1)
if [ -f $D/demo.py ]; then r1=$(PYTHONPATH=$WT timeout 120 /venv/bin/python $D/demo.py >/dev/null 2>&1; echo $?); else r1=1; fi
echo "$id: demo clean rc=$r0, tests with mutation: $t, demo with mutation rc=$r1"
if [ "$r0" = 0 ] && [ "$r1" != 0 ] && echo "$t" | grep -q "116 passed"; then
  cp $D/patch.diff $D/patch_original.diff 2>/dev/null
  cp $P $D/patch.diff
  /venv/bin/python - <<PY
import json
p='$D/meta.json'; m=json.load(open(p))
m['rebased']="the original patch (patch_original.diff) no longer applied after later fix: commits changed its context; the same edit was re-created at /repo HEAD $(git -C /repo rev-parse --short HEAD) and re-confirmed (demo rc=$r0 on HEAD, rc=$r1 with the patch; pinned suite: $t)"
json.dump(m, open(p,'w'), indent=1)
PY
  echo "$id: REBASED"
else
  echo "$id: NOT CONFIRMED"
fi
cd /; git -C /repo worktree remove --force $WT
